#!/usr/bin/env python3
"""Regenerates MANIFEST.json from the table below (claimed checks) and props_na (not claimed)."""
import json, subprocess

BASE = json.load(open('/root/.vp/BASELINE.json'))

# id -> (technique, level text, level note, design ref)
CLAIMED = {
 "C01": ("representation invariant of the processor (shape + every recorded signature valid for its digest and signer + own VAA keyed by its digest) proved preserved by all handlers and Run; ghost 'quorumSigned' mark that both sinks (db.StoreSignedVAA, broadcastSignedVAA) require and that can only be set by proving QuorumSigned(v, keys) at the call site; no-overwrite assertion on the inbound path; SMT",
         "Deductive proof for every sequence of gossip, chain observations, guardian-set updates and backfill: whenever the node stores or broadcasts a signed VAA, QuorumSigned holds - valid signatures over the VAA's own digest, at the claimed indices of the entry's guardian-set snapshot (local path) or the current set (inbound path), strictly ascending, distinct signers, count >= floor(2n/3)+1 - and the inbound path never replaces a stored VAA. A new store/broadcast site without that proof fails the callee's precondition.",
         "Trusted: govc, SMT solvers; ecrecover/keccak/hex uninterpreted; guardian sets arriving from chain have <= 255 pairwise distinct keys (explicit environment assumption - the Ethereum contract does not enforce distinctness); ghost-store contracts of the db functions; 'the set the VAA names' is proved for the guardian-set *snapshot of the entry*, the equality GuardianSetIndex == gs.Index for chain-observed entries is not tracked separately from injected ones.",
         "DESIGN.md §3-C01"),
 "C02": ("ensures clauses on handleObservation (publish-iff with a counting spec function over the recorded signatures, once, never-for-unobserved, frame on reject), handleMessage (governance emitter never signed, deterministic VAA, signs its own digest), handleInbound (never publishes), broadcastSignature (records own observation); SMT",
         "Deductive proof per handler call, from every state satisfying the invariant: an accepted observation for an entry publishes exactly when the node has its own VAA, the entry is not yet submitted and the number of set members with a recorded valid signature reaches floor(2n/3)+1; the published header/body equal the node's own observation; a submitted entry never publishes again; a chain message naming the governance emitter changes nothing and is never signed. Arrival-order independence follows because this holds from every reachable state (Run's loop invariant, proved under C01/C13).",
         "Trusted: as C01; 'eventually delivered' (loopback goroutine, channel fairness) is not a contract property; idempotence of re-observation is covered as 'the VAA built is a function of the message and the current set index'.",
         "DESIGN.md §3-C02"),
 "C03": ("frame-on-reject ensures for each rejection reason of handleObservation; accept-only-if contracts on processSignedHeartbeat / processSignedObservationRequest (member, length floor, signature over the domain-prefixed digest); cap invariant on the heartbeat table with map-cardinality axioms; domain-separation lemmas over the actual prefix variables (never assigned: checked); SMT",
         "Deductive proof for every gossip message: an observation that does not recover to its claimed address or whose address is not in the applicable set leaves aggregation state, queues and store untouched; heartbeats and re-observation requests are accepted only from set members, only >= 34 signed bytes, only when the signature recovers over keccak(prefix ++ body) to the claimed address; a rejected heartbeat leaves the table unchanged; the table never exceeds 15 nodes per guardian; a heartbeat string is never a request string nor a 32-byte digest pre-image.",
         "Trusted: govc, SMT solvers; keccak/ecrecover uninterpreted (the cross-purpose clause is about the signed strings, not hash collisions); processSignedHeartbeat is verified for disableVerify == false (the flag is a devnet configuration); metrics code is treated as pure.",
         "DESIGN.md §3-C03"),
 "C04": ("contracts on serializeBody/MustWrite/SigningMsg against spec function encBody (offsets extracted from Messages.sol and governance.ral each run); injectivity lemma; SMT",
         "Deductive proof for all VAAs: the signing body equals encBody(8 body fields) byte for byte, the digest is keccak(keccak(body)), hence a function of those fields only; body_injective proves distinct fields give distinct bodies; the two contract offset tables are proved equal.",
         "Trusted: govc, SMT solvers, regex-level extraction of the Solidity/Ralph statements (fails closed), keccak uninterpreted (content-extensional), assumed contracts of bytes.Buffer and encoding/binary.Write. Solidity/Ralph execution semantics are not verified.",
         "DESIGN.md §3-C04"),
 "C05": ("contracts on Marshal/Unmarshal (loop invariants over reader position), accept-iff/accept-exact/reject-complete clauses, no-panic obligations, round-trip lemmas; SMT",
         "Deductive proof for all byte strings: the decoder accepts exactly accepts(data), an accepted input is the encoding of the returned VAA (no truncation), a rejected one returns nil, and no index/slice/nil panic is reachable; lemmas encoding_accepted + encoding_injective give the round trip for all payload lengths.",
         "Trusted: govc, SMT solvers, assumed contracts of bytes.Reader, encoding/binary.Read/Write, bytes.Buffer, time.Unix.",
         "DESIGN.md §3-C05"),
 "C06": ("iff-contract on VerifySignatures with two loop invariants and an inductive pigeonhole lemma; SMT",
         "Deductive proof for all VAAs and address lists: the verdict is true exactly when every signature recovers over the VAA's digest to the address at its claimed index, indices are in range and strictly ascending and signers distinct; no panic on any signature bytes.",
         "Trusted: govc, SMT solvers; secp256k1 recovery and keccak are uninterpreted functions (so 'changing a body bit changes the verdict' is not claimed, only that the verdict is a function of the digest and the signature list).",
         "DESIGN.md §3-C06"),
 "C08": ("iff-contract on isEventConfirmed/getConfirmationDuration; representation invariant of the pending table + at-assertions at the hand-off sites of handleEvents_ (closure `process` verified inline), handleConfirmedEvents, handleObsvRequest, handleGovernanceMessages; contracts on the page conversion, attestation check and re-observation lookup; symbolic clock; SMT",
         "Deductive proof for every sequence of pages, heights, node answers and re-observation requests: a message is handed to the signing pipeline only if its event has index 0 and the token-bridge id as sender, it is final at that moment (block height + consistency level <= height, and - mainnet transfers - max(cl,205) block intervals of wall-clock time since the block timestamp), the node reported its block canonical in the same round, an attestation equals the token's own metadata; the re-observation path additionally filters by the emitting contract and applies the same time rule (both were missing: found, replayed, repaired). Per block iteration an event is either kept pending or leaves the table, never both.",
         "Trusted: govc, SMT solvers. Environment: the node's answers are arbitrary values, except (listed) that events returned by GetContractEvents(address) were emitted by that address (polling path), headers are far from the int32/int64 limits, successful API calls return non-nil results; a reorg between two node calls is 'any answer'. time.Now on a ghost monotone clock.",
         "DESIGN.md §3-C08"),
 "C09": ("contracts on the page conversion (a malformed event never fails the page; a well-formed non-attestation event is always kept: per-iteration clause), termination variant + monotone cursor on the page loop of fetchEvents, no-panic obligations on GetTokenInfo; SMT",
         "Deductive proof for every page content and every node answer: handleUnconfirmedEvents never returns an error because of a malformed or foreign event and keeps every well-formed transfer event of the page; the page loop of fetchEvents terminates (variant count - cursor) and the cursor only moves forward by what was fetched; GetTokenInfo reaches no nil dereference whatever the multicall returns. Four genuine defects were found by failing obligations, replayed on the real code and repaired (page dropped by one bad event; spin on a moved count; two nil dereferences).",
         "Trusted: govc, SMT solvers; assumed contracts of the node API client (non-nil on success). 'Eventually observed' is claimed only as: each tick handles all events below the polled count and each height tick forwards every final one (C08) - that ticks keep arriving and that the node reports NextStart consistently are environment assumptions; the restart behaviour of the supervisor is out of scope.",
         "DESIGN.md §3-C09"),
 "C10": ("the three goroutine literals of (*Watcher).Run put under contract as closure units (captured variables arbitrary): per-entry transition contract of the head scan (range over the pending map; ghost counter of receipt lookups; old() = head of the iteration), at-assertions at the hand-off sites, contract on MessageEventsForTransaction (contract/topic/status filter), ghost head-read counter ordering the head read before the receipt request; SMT; counterexample histories replayed on the real Run against an in-process JSON-RPC node",
         "Deductive proof per head event and per pending entry, for every head value (any jump), consistency level, confirmation mode and receipt answer: the entry is forwarded iff the head is at least its block number plus the required confirmations (zero for safe/finalized heads or when confirmations are not honoured), a receipt lookup made in that same scan returned success status and the entry's own block hash; then it is sent exactly once and leaves the table; no lookup and no change before the depth is reached; a lookup is always made once it is reached (a head jump no longer abandons unseen entries: found, replayed, repaired); not-found / failed / re-mined entries are dropped; a transient RPC error keeps the entry until the abandonment window has passed (it used to drop it: found, replayed, repaired); other entries untouched. Log intake records block number, block hash and consistency level of the delivered log and forwards nothing. Re-observation: exactly one head read, before the receipt request, forward iff receipt block + confirmations <= that head and head != 0; messages only from logs of the configured contract whose first topic is the message-published topic in a receipt with status 1.",
         "Trusted: govc, SMT solvers. Run's own body (dial, subscriptions, supervisor) is not verified; goroutine interleaving is not modelled: each literal is verified alone and the pending-table invariant wfPending is assumed at every loop head (the other literals are proved to preserve it; accesses are under pendingMu, which is not modelled). Environment (assumed contracts of the RPC connector, listed): answers are arbitrary except go-ethereum's client shape (no (nil,nil) receipt, receipt has a block number < 2^62, logs have >= 1 topic, ParseLogMessagePublished copies the log into Raw); block numbers of delivered logs < 2^62; abandonment window <= 2^32. Of the block poller, getBlock (number present, safe flag passed through) and pollBlocks (publishes only a head newer than the last one, nothing on error) are under contract; its run loop, the feed plumbing and the connector wrappers (connector.go) are exercised by the replay harness only.",
         "DESIGN.md §3-C10"),
 "C11": ("functional contracts (accept-iff-fits + exact value) on the field decoders, ToWormholeMessage, toMessagePublication, parseAttestToken (offsets extracted from token_bridge.ral), hex/base58 helpers; inverse lemma; SMT",
         "Deductive proof for all event fields: an event is decoded iff its six fields fit the VAA format and then carries exactly those values, the block timestamp split as (ms div 1000, ms mod 1000) and chain id 255; out-of-range or negative values are rejected, never wrapped; attestation payload offsets equal the Ralph encoder's; no panic.",
         "Trusted: govc, SMT solvers; assumed contracts of math/big (SetString/Cmp/Sign/IsUint64/Uint64), encoding/hex, base58 (uninterpreted, Decode(Encode(b))=b), bytes.Trim (uninterpreted), time.Unix; Ralph source is a spec input (regex extraction, fails closed).",
         "DESIGN.md §3-C11"),
 "C07": ("contract (requires/ensures) on CalculateQuorum discharged by SMT; Solidity and Ralph formulas parsed into SMT terms each run and proved equal; BFT lemmas",
         "Deductive proof, for every n in the stated range (unbounded above up to the overflow side-condition), that the node's quorum function equals floor(2n/3)+1 and that the formulas in Messages.sol and governance.ral compute the same; quorum_bft proves >2n/3, <=n and the intersection bound.",
         "Trusted: govc, SMT solvers, the extraction of the two contract formulas (integer + * / only, fails closed). Integer overflow excluded by the requires clause (n <= (2^63-1)/10); callers pass len(keys).",
         "DESIGN.md §3-C07"),
 "C15": ("functional contracts on the nine Serialize methods and ten request converters: envelope, module id, action id, field offsets and total size extracted on every run from governance.ral / token_bridge_governance.ral; lossless clauses with exact conversion semantics; no-panic obligations incl. InjectGovernanceVAA's type switch; SMT",
         "Deductive proof for every governance request: the converter either rejects or returns a VAA from the configured governance emitter with the request's header values, whose payload has the module bytes, the action id and every field at the offsets and total length the Ralph parser reads, with each requested number equal to the number encoded (no wrap-around); no request reaches a panic. Nine genuine defects (silent truncation, wrap, two panics) were found by failing obligations, replayed on the real code and repaired.",
         "Trusted: govc, SMT solvers; regex-level extraction of the Ralph parsers (fails closed); hex.DecodeString / IsHexAddress / HexToAddress uninterpreted; protobuf hands over non-nil messages (environment assumptions listed); purity ('all operators sign the same digest') follows from the converters' frame (modifies only fresh objects) and the C04 digest contract. The Ralph precondition 'length > 0' of destroyUnexecutedSequenceContracts is not mirrored (an empty list yields a VAA the contract rejects).",
         "DESIGN.md §3-C15"),
 "C17": ("loop invariant + per-iteration contract (old() = iteration head) on the dispatcher's select loop, at-assertions at the send site, non-blocking obligations on every send, contract on PostObservationRequest; SMT",
         "Deductive proof for every sequence of requests and ticks (nondeterministic select, havoc'd received values, symbolic clock): a request is forwarded only on the channel the routing table holds for the chain id it names (no narrowing), only when that (chain, tx) is not in the cache, the cache grows only when a send happened, the purge removes exactly entries older than 11 minutes, and every send sits in a select with default.",
         "Trusted: govc, SMT solvers; ghost monotone clock for clock.Now (ticker phase arbitrary); hex.EncodeToString uninterpreted; goroutine scheduling and channel fairness not modelled (not needed: one goroutine); received requests assumed non-nil.",
         "DESIGN.md §3-C17"),
 "C19": ("iff-contract on verifyVAA; index invariant on the guardian-set list proved preserved by updateGuardianSets / GetGuardianSet (with a termination variant on the chain range query); at-assertion at the queue hand-off inside the deduplicator closure; ghost call counter on the cache; SMT",
         "Deductive proof (sequential): verifyVAA accepts exactly a VAA with >= floor(2n/3)+1 signatures valid for the given set; the set returned for index i has index i and the list stays contiguous across updates; a VAA reaches the persistence queue only after it was verified against the set whose index it carries; the deduplicator marks a key only after fn returned nil. One genuine defect (non-terminating range query for index 4294967295, reachable from unverified gossip) was found, replayed and repaired.",
         "Trusted: govc, SMT solvers. NOT decided and not claimed: the clause 'also while newer sets are being appended concurrently' - GetGuardianSet reads the list without the lock; that is a data race between goroutines, outside sequential contracts. The explorer builds against a pinned release of the node module: the contracts of vaa.VerifySignatures and processor.CalculateQuorum are assumed for that copy (the source of both functions is identical to /repo's, where C06/C07 verify them). Ethereum contract answers are arbitrary values.",
         "DESIGN.md §3-C19"),
 "C20": ("per-subscriber iteration contract on Publish (delivered iff matches, bytes exact, no other channel touched) with loop invariants, non-blocking obligation on every send under the mutex, contract on decodeEmitterAddr; SMT",
         "Deductive proof for every subscription table and VAA: in each iteration Publish sends on the subscriber's channel iff the subscriber has no filters or a filter equal to the VAA's emitter chain and address, the bytes sent are the published bytes and no other subscriber's channel is touched. The independence clause is the non-blocking obligation on the two sends under subsMu; both fail on the current tree and are recorded as known findings (replayed on the real code: a stalled subscriber blocks Publish and the mutex). SubscribeSignedVAA registers exactly one filter per requested entry with the requested chain id (a narrowing defect was found, replayed and repaired).",
         "Trusted: govc, SMT solvers; vaa.Unmarshal through its verified contract; sync.Mutex not modelled (only 'a send under it must not block'); gRPC stream fairness not modelled. Duplicate delivery when two filters match is not excluded by the statement and not checked.",
         "DESIGN.md §3-C20"),
 "C14": ("per-entry transition contract of handleCleanup (range over the aggregation map; old() = head of the iteration; symbolic monotone clock), frame clauses for the other entries, contract on PostObservationRequest; SMT",
         "Deductive proof for every aggregation state, store content and clock history: an entry is removed only if late-with-stored-VAA, submitted and an hour old, retry budget exhausted, or never observed after five minutes; an own unsubmitted message is never discarded before its budget unless a quorum VAA is stored; a retry happens only >= 5 min after the previous one, re-broadcasts the node's own observation and bumps the counter by one; when due, retry / expiry / drop does happen; other entries are untouched.",
         "Trusted: govc, SMT solvers; assumed ghost-store contracts of db.GetSignedVAABytes (verified separately under C12 where claimed); time.Since/Now on a ghost monotone clock, Duration.Hours/Minutes as exact reals; ticks are assumed to keep arriving (the bounded-lifetime conclusion follows from the proved per-tick relation: retryCount strictly increases towards the budget); the goroutine sending the miss notification is not executed.",
         "DESIGN.md §3-C14"),
 "C12": ("functional contracts on StoreSignedVAA / GetSignedVAABytes / FindEmitterSequenceGap / GetGovernanceVAABatch verified against an assumed model of badger (store = ghost map VAAID -> bytes through the key format that govc extracts from (*VAAID).Bytes on every run; View/Update run once, Update atomic; Get not-found iff absent; the Seek/ValidForPrefix/Next idiom visits each key with the prefix once); format-structured strings: prefix tests, LastIndex/slicing and ParseUint on Sprintf results are decided segment-wise (a pattern that ends inside a %d matches every number starting with those digits); loop invariants over the iteration's visited set; contracts on the three public RPC lookups and on find-missing-messages; SMT; violations replayed on a real badger store",
         "Deductive proof for every store content and every query: StoreSignedVAA puts exactly the VAA's encoding under exactly its (emitter chain, address, target chain, sequence) identifier and changes no other entry (the key format is proved injective); GetSignedVAABytes returns the bytes of exactly that identifier and not-found exactly for an absent one; FindEmitterSequenceGap reports exactly the sequences between firstSeq and lastSeq that the stream does not hold, lastSeq is the stream's highest sequence, and VAAs of any other emitter chain, address or target chain have no influence (the unterminated prefix let target chain 2 see 25x: found, replayed, repaired); GetGovernanceVAABatch returns exactly the stored VAAs of the governance emitter with a requested sequence, each with the target chain, sequence and bytes of its key; the RPC lookups and find-missing-messages address exactly the identifier / stream the request names (chain ids outside 16 bits and short addresses were folded onto other streams: found, replayed, repaired).",
         "Trusted: govc, SMT solvers; the badger model and the segment-alignment rules for formatted strings (argued in DESIGN.md §3-C12; decimal renderings are canonical, a literal after %d starts with a non-digit, hex renderings have fixed width); hex.DecodeString/EncodeToString uninterpreted; vaa.Unmarshal/Marshal through their verified contracts (C05). Store invariant: every stored value carries the sequence of its key - a precondition of the stream queries that StoreSignedVAA (the only writer) is proved to preserve; environment: no sequence counter has reached 2^64-1; firstSeq is 0 by construction of the code (reported as is). The backfill path of find-missing-messages (HTTP) is not verified.",
         "DESIGN.md §3-C12"),
 "C13": ("zero-annotation no-panic obligations (nil deref, index, slice bounds, nil-map write, explicit panic, make size, callee preconditions) on the seven handlers and Run under the processor's representation invariant, which every handler is proved to re-establish; SMT",
         "Deductive proof that from every state satisfying the representation invariant Inv(p) and for every chain message, observation, inbound VAA, injected VAA, guardian-set update and tick, no handler reaches a panic site and Inv(p) holds again afterwards; Run's loop invariant turns this into 'for every sequence of events'. Two genuine defects found by failing obligations and history replays were repaired (undecodable stored VAA; cleanup before the first guardian set).",
         "Trusted: govc, SMT solvers. Environment assumptions (listed in evidence): messages on channels are non-nil; guardian sets arriving on setC have at most 255 keys; a working guardian signer and proto.Marshal (the code panics by design if they fail); LastHeartbeat returns non-nil heartbeats (assumed contract); ghost-store contracts of db.Store/Get; goroutines started by the handlers are not executed; runtime exhaustion (memory growth by a valid guardian) is out of scope.",
         "DESIGN.md §3-C13"),
}

NA = {
 "C16": "crash-point durability is behaviour of badger's WAL/fsync and the kernel under SIGKILL; no function contract in this repository can express or decide it (DESIGN.md §5)",
 "C18": "the claim is about interleavings of supervisor goroutines and wall-clock back-off; sequential pre/post-conditions cannot express the happens-before argument and no permission logic for Go is installed (DESIGN.md §5)",
}
ALL = ["C%02d" % i for i in range(1, 21)]

def main():
    checks = []
    for pid in ALL:
        if pid in CLAIMED:
            tech, text, note, ref = CLAIMED[pid]
            checks.append({
                "property_id": pid,
                "quick_cmd": "./check %s quick" % pid,
                "thorough_cmd": "./check %s thorough" % pid,
                "evidence_file": "/verif/evidence/%s.json" % pid,
                "replay_cmd_template": "./check --replay {path}",
                "engine": "govc",
                "level_claimed": {"category": "proof", "text": text, "design_ref": ref},
                "level_note": note,
                "technique": tech,
            })
    na = []
    for pid in ALL:
        if pid in CLAIMED:
            continue
        na.append({"property_id": pid, "reason": NA.get(pid, "contracts for this property are not built yet in this revision; no check is claimed (see DESIGN.md §3 for the plan)")})
    hooks = subprocess.run(["git", "-C", "/repo", "log", "--format=%H %s"], capture_output=True, text=True).stdout.splitlines()
    hook_commits = [l.split()[0] for l in hooks if " verif-hook:" in l]
    m = {
        "version": 1,
        "setup_cmd": "./check --build",
        "hooks": {
            "guard": "verif",
            "enable": "go/packages BuildFlags -tags=verif; the hook files (zz_contracts_verif.go) are comment-only contract files behind //go:build verif",
            "baseline_off_cmd": BASE["cmd"],
            "source_commits": hook_commits,
            "add_only": True,
        },
        "engines": [{"name": "govc", "path": "/verif/engine", "serves_properties": sorted(CLAIMED),
                     "kind_free_text": "verification-condition generator for Go (typed AST -> SMT-LIB), contracts in //@ comment files, solver race z3/z3-new/cvc5, overlay replay on the real code"}],
        "checks": checks,
        "not_applicable": na,
        "notes": "All claimed checks are contract-based deductive verification of the functions in /repo; see DESIGN.md.",
    }
    json.dump(m, open("MANIFEST.json", "w"), indent=1)
    print("claimed:", sorted(CLAIMED), "na:", len(na))

main()
