#!/usr/bin/env python3
"""Regenerates MANIFEST.json from the table below (claimed checks) and props_na (not claimed)."""
import json, subprocess

BASE = json.load(open('/root/.vp/BASELINE.json'))

# id -> (technique, level text, level note, design ref)
CLAIMED = {
 "C07": ("contract (requires/ensures) on CalculateQuorum discharged by SMT; cross-language formula extraction",
         "Deductive proof, for every n in the stated range, that the node's quorum function equals floor(2n/3)+1; BFT lemmas proved over the spec function.",
         "Trusted: govc VC generator, SMT solvers. Integer overflow excluded by the requires clause (n <= (2^63-1)/10), callers pass len(keys).",
         "DESIGN.md §3-C07"),
}

NA = {
 "C16": "crash-point durability is behaviour of badger's WAL/fsync and the kernel under SIGKILL; no function contract in this repository can express or decide it (DESIGN.md §5)",
 "C18": "the claim is about interleavings of supervisor goroutines and wall-clock back-off; sequential pre/post-conditions cannot express the happens-before argument and no permission logic for Go is installed (DESIGN.md §5)",
}
ALL = ["C%02d" % i for i in range(1, 21)]

def main():
    checks = []
    for pid in ALL:
        if pid in CLAIMED:
            tech, text, note, ref = CLAIMED[pid]
            checks.append({
                "property_id": pid,
                "quick_cmd": "./check %s quick" % pid,
                "thorough_cmd": "./check %s thorough" % pid,
                "evidence_file": "/verif/evidence/%s.json" % pid,
                "replay_cmd_template": "./check --replay {path}",
                "engine": "govc",
                "level_claimed": {"category": "proof", "text": text, "design_ref": ref},
                "level_note": note,
                "technique": tech,
            })
    na = []
    for pid in ALL:
        if pid in CLAIMED:
            continue
        na.append({"property_id": pid, "reason": NA.get(pid, "contracts for this property are not built yet in this revision; no check is claimed (see DESIGN.md §3 for the plan)")})
    hooks = subprocess.run(["git", "-C", "/repo", "log", "--format=%H %s"], capture_output=True, text=True).stdout.splitlines()
    hook_commits = [l.split()[0] for l in hooks if " verif-hook:" in l]
    m = {
        "version": 1,
        "setup_cmd": "./check --build",
        "hooks": {
            "guard": "verif",
            "enable": "go/packages BuildFlags -tags=verif; the hook files (zz_contracts_verif.go) are comment-only contract files behind //go:build verif",
            "baseline_off_cmd": BASE["cmd"],
            "source_commits": hook_commits,
            "add_only": True,
        },
        "engines": [{"name": "govc", "path": "/verif/engine", "serves_properties": sorted(CLAIMED),
                     "kind_free_text": "verification-condition generator for Go (typed AST -> SMT-LIB), contracts in //@ comment files, solver race z3/z3-new/cvc5, overlay replay on the real code"}],
        "checks": checks,
        "not_applicable": na,
        "notes": "All claimed checks are contract-based deductive verification of the functions in /repo; see DESIGN.md.",
    }
    json.dump(m, open("MANIFEST.json", "w"), indent=1)
    print("claimed:", sorted(CLAIMED), "na:", len(na))

main()
