package main

// Address-taken local variables live in the heap: a variable whose address is taken anywhere
// (`&x`) is a cell allocated where it is declared; reads and writes go through the cell, `&x`
// is the cell's reference. Range variables are one cell per loop (Go < 1.22 semantics: the
// modules under verification declare go 1.19), so a pointer to a range variable taken in one
// iteration aliases the variable of every later iteration.

import (
	"go/ast"
	"go/token"
	"go/types"
)

func (e *Engine) isCellVar(o *types.Var) bool {
	if e.cellVars == nil {
		e.cellVars = map[*types.Var]bool{}
		for _, p := range e.pkgs {
			if p.TypesInfo == nil {
				continue
			}
			for _, f := range p.Syntax {
				ast.Inspect(f, func(n ast.Node) bool {
					if call, ok := n.(*ast.CallExpr); ok {
						// x.M() with a pointer-receiver method on an addressable variable: implicit &x
						if se, ok := ast.Unparen(call.Fun).(*ast.SelectorExpr); ok {
							if sel := p.TypesInfo.Selections[se]; sel != nil && sel.Kind() == types.MethodVal {
								if id, ok := ast.Unparen(se.X).(*ast.Ident); ok {
									if v, ok := p.TypesInfo.ObjectOf(id).(*types.Var); ok && !v.IsField() && v.Pkg() != nil && v.Parent() != v.Pkg().Scope() {
										_, recvPtr := sel.Obj().Type().(*types.Signature).Recv().Type().Underlying().(*types.Pointer)
										_, varPtr := v.Type().Underlying().(*types.Pointer)
										_, isIface := v.Type().Underlying().(*types.Interface)
										if recvPtr && !varPtr && !isIface {
											e.cellVars[v] = true
										}
									}
								}
							}
						}
						return true
					}
					u, ok := n.(*ast.UnaryExpr)
					if !ok || u.Op != token.AND {
						return true
					}
					id, ok := ast.Unparen(u.X).(*ast.Ident)
					if !ok {
						return true
					}
					v, ok := p.TypesInfo.ObjectOf(id).(*types.Var)
					if !ok || v.IsField() || v.Pkg() == nil || v.Parent() == v.Pkg().Scope() {
						return true
					}
					e.cellVars[v] = true
					return true
				})
			}
		}
	}
	return e.cellVars[o]
}

func (x *Exec) storeCell(st *State, p Val, ty types.Type, v Val) {
	if _, ok := ty.Underlying().(*types.Struct); ok && x.u.sortOf(ty) != "Time" {
		x.writeStruct(st, p, ty, v)
		return
	}
	x.writeCell(st, p, Val{T: v.T, S: x.u.sortOf(ty), Ty: ty})
}

// declVar binds a variable at its declaration.
func (x *Exec) declVar(st *State, o *types.Var, v Val) {
	if !x.eng.isCellVar(o) {
		st.vars[o] = Val{T: v.T, S: v.S, Ty: o.Type()}
		return
	}
	r := x.alloc(st, "cell_"+sanitize(o.Name()))
	p := Val{T: r, S: "Int", Ty: types.NewPointer(o.Type())}
	st.vars[o] = p
	x.storeCell(st, p, o.Type(), v)
}

// setVar assigns to an already declared variable.
func (x *Exec) setVar(st *State, o *types.Var, v Val) {
	if !x.eng.isCellVar(o) {
		st.vars[o] = Val{T: v.T, S: v.S, Ty: o.Type()}
		return
	}
	p, ok := st.vars[o]
	if !ok {
		x.declVar(st, o, v)
		return
	}
	x.storeCell(st, p, o.Type(), v)
}

// getVar reads a variable.
func (x *Exec) getVar(st *State, o *types.Var) (Val, bool) {
	v, ok := st.vars[o]
	if !ok {
		return Val{}, false
	}
	if !x.eng.isCellVar(o) {
		return v, true
	}
	d := x.deref(st, v, false)
	d.Ty = o.Type()
	return d, true
}

// cellKeys: the heap keys a write to a cell variable touches.
func (x *Exec) cellKeys(o *types.Var) []string {
	ty := o.Type()
	if stt, ok := ty.Underlying().(*types.Struct); ok && x.u.sortOf(ty) != "Time" {
		var ks []string
		for i := 0; i < stt.NumFields(); i++ {
			ks = append(ks, x.u.heapKeyForField(stt.Field(i), ty))
		}
		return ks
	}
	s := x.u.sortOf(ty)
	key := "Cell_" + sortId(s)
	x.u.regHeap(key, "(Array Int "+s+")")
	return []string{key}
}

// implicitAddr: the receiver of x.M() when M has a pointer receiver and x is an addressable
// (cell) variable of non-pointer type: the cell's reference.
func (fr *Frame) implicitAddr(st *State, c *ast.CallExpr) (Val, bool) {
	se, ok := ast.Unparen(c.Fun).(*ast.SelectorExpr)
	if !ok {
		return Val{}, false
	}
	id, ok := ast.Unparen(se.X).(*ast.Ident)
	if !ok {
		return Val{}, false
	}
	o, ok := fr.info.ObjectOf(id).(*types.Var)
	if !ok || !fr.x.eng.isCellVar(o) {
		return Val{}, false
	}
	if _, bound := st.vars[o]; !bound {
		fr.expr(st, id)
	}
	p := st.vars[o]
	return Val{T: p.T, S: "Int", Ty: types.NewPointer(o.Type())}, true
}
