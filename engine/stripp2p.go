package main

// stripP2P produces, on every run, a copy of node/pkg/p2p/p2p.go in which the body of
// Run is replaced by panic("stripped") and imports that become unused are pruned, so
// that the QUIC-blocked packages compile for replay. Everything else is kept verbatim.

import (
	"bytes"
	"go/ast"
	"go/parser"
	"go/printer"
	"go/token"
	"os"
	"path/filepath"
	"strconv"
	"strings"
)

func stripP2P(eng *Engine, tmp string) string {
	src := filepath.Join(eng.repo, "node/pkg/p2p/p2p.go")
	fset := token.NewFileSet()
	f, err := parser.ParseFile(fset, src, nil, parser.ParseComments)
	if err != nil {
		return ""
	}
	for _, d := range f.Decls {
		if fd, ok := d.(*ast.FuncDecl); ok && fd.Name.Name == "Run" && fd.Recv == nil {
			fd.Body = &ast.BlockStmt{List: []ast.Stmt{&ast.ExprStmt{X: &ast.CallExpr{Fun: ast.NewIdent("panic"), Args: []ast.Expr{&ast.BasicLit{Kind: token.STRING, Value: strconv.Quote("stripped")}}}}}}
		}
	}
	// which import names are still referenced?
	used := map[string]bool{}
	ast.Inspect(f, func(n ast.Node) bool {
		if se, ok := n.(*ast.SelectorExpr); ok {
			if id, ok := se.X.(*ast.Ident); ok {
				used[id.Name] = true
			}
		}
		return true
	})
	for _, d := range f.Decls {
		gd, ok := d.(*ast.GenDecl)
		if !ok || gd.Tok != token.IMPORT {
			continue
		}
		var keep []ast.Spec
		for _, s := range gd.Specs {
			is := s.(*ast.ImportSpec)
			path, _ := strconv.Unquote(is.Path.Value)
			name := ""
			if is.Name != nil {
				name = is.Name.Name
			} else {
				name = path[strings.LastIndex(path, "/")+1:]
				name = strings.TrimPrefix(name, "go-")
			}
			if used[name] {
				keep = append(keep, s)
			}
		}
		gd.Specs = keep
	}
	f.Comments = nil
	var b bytes.Buffer
	if err := printer.Fprint(&b, fset, f); err != nil {
		return ""
	}
	out := filepath.Join(tmp, "p2p_stripped.go")
	os.WriteFile(out, b.Bytes(), 0o644)
	return out
}
