package main

import (
	"fmt"
	"go/ast"
	"go/types"
	"sort"
	"strings"
)

func (fr *Frame) calleeFunc(c *ast.CallExpr) *types.Func {
	switch f := ast.Unparen(c.Fun).(type) {
	case *ast.Ident:
		if fn, ok := fr.info.ObjectOf(f).(*types.Func); ok {
			return fn
		}
	case *ast.SelectorExpr:
		if sel := fr.info.Selections[f]; sel != nil {
			if fn, ok := sel.Obj().(*types.Func); ok {
				return fn
			}
			return nil
		}
		if fn, ok := fr.info.ObjectOf(f.Sel).(*types.Func); ok {
			return fn
		}
	}
	return nil
}

// specEnv builds the evaluation environment for contract expressions at state st.
func (fr *Frame) specEnv(st *State) *SpecEnv {
	env := &SpecEnv{x: fr.x, pkg: fr.pkg, names: map[string]Val{}, st: st, old: fr.x.entry, bound: map[string]bool{}}
	// locals by name (innermost / latest declaration wins)
	best := map[string]*types.Var{}
	for o := range st.vars {
		v, ok := o.(*types.Var)
		if !ok {
			continue
		}
		if fr.unitHi != 0 && (v.Pos() < fr.unitLo || v.Pos() > fr.unitHi) {
			continue // a variable of an inlined callee
		}
		if b, ok := best[v.Name()]; !ok || v.Pos() > b.Pos() {
			best[v.Name()] = v
		}
	}
	for n, o := range best {
		if gv, ok := fr.x.getVar(st, o); ok {
			env.names[n] = gv
		}
	}
	for k, v := range fr.specNames {
		if _, shadow := env.names[k]; !shadow || true {
			// contract names denote entry values of parameters unless the local of the
			// same name is still the parameter itself
			if _, isLocal := env.names[k]; !isLocal {
				env.names[k] = v
			}
		}
	}
	if len(fr.loops) > 0 {
		lc := fr.loops[len(fr.loops)-1]
		env.loopI = lc.i
		// atHead()/atEntry() inside a loop body (at-clauses): snapshots of the innermost loop
		if lc.head != nil && st != lc.head && !fr.inSnapEnv {
			fr.inSnapEnv = true
			env.head = fr.specEnv(lc.head)
			if lc.entry != nil {
				env.entry = fr.specEnv(lc.entry)
			}
			fr.inSnapEnv = false
		}
	}
	return env
}

func (fr *Frame) call(st *State, c *ast.CallExpr) []Val {
	x := fr.x
	// conversion
	if tv, ok := fr.info.Types[c.Fun]; ok && tv.IsType() {
		return []Val{fr.convert(st, c, tv.Type)}
	}
	// builtin
	if id, ok := ast.Unparen(c.Fun).(*ast.Ident); ok {
		if b, isB := fr.info.ObjectOf(id).(*types.Builtin); isB {
			return fr.builtin(st, c, b.Name())
		}
	}
	fr.atCall(st, c)
	// call of a function-typed local / field / literal
	fn := fr.calleeFunc(c)
	if fn == nil {
		return fr.dynamicCall(st, c)
	}
	full := fn.FullName()
	if h, ok := libHandlers[full]; ok {
		return h(fr, st, c, fn)
	}
	if ct := x.eng.findContract(fn); ct != nil && ct.InlineAtCallers && fr.contract != ct {
		if decl, dpkg := x.eng.funcDecl(fn); decl != nil && decl.Body != nil && fr.depth < 4 && !fr.onStack(full) {
			x.usedContracts[ct.Pkg+"::"+ct.Key()] = ct
			return fr.inlineCall(st, c, fn, decl, dpkg)
		}
	}
	if ct := x.eng.findContract(fn); ct != nil && !(fr.contract == ct) {
		return fr.contractCall(st, c, fn, ct)
	} else if ct != nil && fr.contract == ct {
		// recursion: use own contract
		return fr.contractCall(st, c, fn, ct)
	}
	switch fn.FullName() {
	case "sort.Slice", "sort.SliceStable", "sort.Sort", "sort.Stable", "sort.Strings", "sort.Ints", "sort.Float64s":
		// in-place mutators: slices are values in the model, so whose backing array is permuted
		// is unknown - the call counts as touching the whole heap (a function with a modifies
		// clause may only sort where that is unreachable, see frame:*)
		x.used("sort.* permute a backing array in place: modelled as a whole-heap havoc")
		return fr.unknownCall(st, c, fn)
	}
	if x.eng.isPurePkg(fn) {
		fr.labelCardinality(st, c, fn)
		return fr.pureCall(st, c, fn)
	}
	if decl, dpkg := x.eng.funcDecl(fn); decl != nil && decl.Body != nil && fr.depth < 4 && !fr.onStack(full) {
		return fr.inlineCall(st, c, fn, decl, dpkg)
	}
	return fr.unknownCall(st, c, fn)
}

func (fr *Frame) onStack(full string) bool {
	for _, s := range fr.inlineStack {
		if s == full {
			return true
		}
	}
	return false
}

func (fr *Frame) sigResults(sig *types.Signature, base string) []Val {
	var out []Val
	for i := 0; i < sig.Results().Len(); i++ {
		out = append(out, fr.x.havocVal(base, sig.Results().At(i).Type()))
	}
	return out
}

func (fr *Frame) pureCall(st *State, c *ast.CallExpr, fn *types.Func) []Val {
	for _, a := range c.Args {
		fr.argEval(st, a)
	}
	fr.recvEval(st, c)
	sig := fn.Type().(*types.Signature)
	vs := fr.sigResults(sig, fn.Name())
	// fmt.Errorf / errors.New results are non-nil
	switch fn.FullName() {
	case "fmt.Errorf", "errors.New", "google.golang.org/grpc/status.Error", "google.golang.org/grpc/status.Errorf":
		fr.x.u.fact("(> " + vs[0].T + " 0)")
	}
	return vs
}

func (fr *Frame) argEval(st *State, a ast.Expr) Val {
	if fl, ok := a.(*ast.FuncLit); ok {
		return fr.expr(st, fl)
	}
	return fr.expr(st, a)
}

func (fr *Frame) recvEval(st *State, c *ast.CallExpr) *Val {
	if se, ok := ast.Unparen(c.Fun).(*ast.SelectorExpr); ok {
		if sel := fr.info.Selections[se]; sel != nil {
			v := fr.expr(st, se.X)
			// implicit address-of / deref for method calls
			return &v
		}
	}
	return nil
}

func (fr *Frame) unknownCall(st *State, c *ast.CallExpr, fn *types.Func) []Val {
	x := fr.x
	for _, a := range c.Args {
		fr.argEval(st, a)
	}
	fr.recvEval(st, c)
	x.u.havocSites = append(x.u.havocSites, fmt.Sprintf("%s: call to %s without contract: heap havoc", fr.pos(c.Pos()), fn.FullName()))
	for _, k := range x.u.heapOrder {
		if strings.HasPrefix(k, "mutex:") {
			continue // hold counters change only through Lock/Unlock executed by the unit itself
		}
		x.havocHeap(st, k)
	}
	x.havocAllSeen = true
	x.havocAllPCs = append(x.havocAllPCs, st.pc)
	nn := x.u.fresh("next", "Int")
	x.u.fact("(>= " + nn + " " + st.next + ")")
	st.next = nn
	return fr.sigResults(fn.Type().(*types.Signature), fn.Name())
}

func (fr *Frame) dynamicCall(st *State, c *ast.CallExpr) []Val {
	x := fr.x
	// immediately-invoked literal or a local bound to a literal: inline it
	var lit *ast.FuncLit
	var owner *Frame
	switch f := ast.Unparen(c.Fun).(type) {
	case *ast.FuncLit:
		lit, owner = f, fr
	default:
		v := fr.expr(st, c.Fun)
		if cv, ok := x.closures[v.T]; ok {
			lit, owner = cv.lit, cv.fr
		}
	}
	if lit != nil && fr.depth < 5 {
		return fr.inlineLit(st, c, lit, owner)
	}
	if id, ok := ast.Unparen(c.Fun).(*ast.Ident); ok && fr.contract != nil && fr.contract.FnSpecs[id.Name] != "" {
		// function-typed parameter with a declared contract (assumed; listed)
		for _, a := range c.Args {
			fr.argEval(st, a)
		}
		x.used("fnspec " + id.Name + ": " + fr.contract.FnSpecs[id.Name] + " (assumed contract of a function-typed parameter)")
		sig, _ := fr.typeOf(c.Fun).Underlying().(*types.Signature)
		if sig == nil {
			return nil
		}
		res := fr.sigResults(sig, id.Name)
		n := len(res)
		if n > 0 && types.Identical(sig.Results().At(n-1).Type(), errT()) {
			for i := 0; i < n-1; i++ {
				if _, isPtr := sig.Results().At(i).Type().Underlying().(*types.Pointer); isPtr {
					x.u.gfact(st.pc, fmt.Sprintf("(= (= %s 0) (not (= %s 0)))", res[n-1].T, res[i].T))
					x.u.gfact(st.pc, fmt.Sprintf("(< %s %s)", res[i].T, st.next))
				}
			}
		}
		return res
	}
	for _, a := range c.Args {
		fr.argEval(st, a)
	}
	t := fr.typeOf(c.Fun)
	if nt, ok := t.(*types.Named); ok && nt.Obj().Pkg() != nil && nt.Obj().Pkg().Path() == "context" && nt.Obj().Name() == "CancelFunc" {
		x.used("context.CancelFunc: calling it has no effect on modelled state")
		return nil
	}
	sig, _ := t.Underlying().(*types.Signature)
	x.u.havocSites = append(x.u.havocSites, fmt.Sprintf("%s: dynamic call %s: heap havoc", fr.pos(c.Pos()), trunc(fr.src(c.Fun), 40)))
	for _, k := range x.u.heapOrder {
		if strings.HasPrefix(k, "mutex:") {
			continue // hold counters change only through Lock/Unlock executed by the unit itself
		}
		x.havocHeap(st, k)
	}
	x.havocAllSeen = true
	x.havocAllPCs = append(x.havocAllPCs, st.pc)
	if sig == nil {
		return nil
	}
	return fr.sigResults(sig, "dyn")
}

// contractCall: modular call against the callee's contract.
func (fr *Frame) contractCall(st *State, c *ast.CallExpr, fn *types.Func, ct *Contract) []Val {
	x := fr.x
	sig := fn.Type().(*types.Signature)
	names := map[string]Val{}
	if sig.Recv() != nil {
		rv := fr.recvEval(st, c)
		if rv != nil && ct.Recv != nil {
			v := *rv
			// value receiver called through pointer or vice versa
			_, wantPtr := sig.Recv().Type().Underlying().(*types.Pointer)
			_, havePtr := v.Ty.Underlying().(*types.Pointer)
			if wantPtr && !havePtr {
				if pv, ok := fr.implicitAddr(st, c); ok {
					v = pv
				} else {
					// address of an addressable value: only cell variables are supported
					v = fr.unsupported(st, c, "implicit address-of receiver", sig.Recv().Type())
				}
			} else if !wantPtr && havePtr {
				v = x.deref(st, v, true)
			}
			if wantPtr {
				fr.safetyNilRecv(st, c, v)
			}
			names[ct.Recv.Name] = v
		}
	}
	for i, a := range c.Args {
		var pt types.Type
		if i < sig.Params().Len() {
			pt = sig.Params().At(i).Type()
		}
		v := fr.exprAs(st, a, pt)
		if i < len(ct.Params) {
			if pt != nil {
				v.Ty = pt
			}
			names[ct.Params[i].Name] = v
		}
	}
	key := ct.Key()
	x.callCount[key]++
	suffix := ""
	if x.callCount[key] > 1 {
		suffix = fmt.Sprintf("#%d", x.callCount[key])
	}
	pre := st.clone()
	env := &SpecEnv{x: x, pkg: x.eng.pkgs[ct.Pkg], names: names, st: st, old: pre, bound: map[string]bool{}}
	for _, r := range ct.Requires {
		t, err := fr.evalClause(env, r)
		lab := r.Label
		if err != nil {
			x.u.oblige("call:"+key+":requires:"+lab+suffix, "contract-stale", r.Src, fr.pos(c.Pos()), st.pc, "false").Clause = "contract-stale: " + err.Error()
			continue
		}
		x.u.oblige("call:"+key+":requires:"+lab+suffix, "requires", r.Src, fr.pos(c.Pos()), st.pc, t)
		x.u.gfact(st.pc, t)
	}
	if ct.NoPanic == false && fr.safe && !ct.Trusted {
		// caller claims no-panic but callee does not: record
		x.u.notes = append(x.u.notes, "callee "+key+" carries no nopanic clause")
	}
	results := fr.sigResults(sig, fn.Name())
	for i, r := range results {
		if i < len(ct.Results) {
			names[ct.Results[i].Name] = r
		}
	}
	// dry run of the post-conditions: registers every heap key they mention (ghost channel
	// counters, library state) so that the havoc below covers them
	for _, e := range ct.Ensures {
		fr.evalClause(env, e)
	}
	// havoc what the callee may modify
	for _, m := range ct.Modifies {
		if m == "*" {
			for _, k := range x.u.heapOrder {
				if strings.HasPrefix(k, "mutex:") {
					continue // a callee under contract leaves every hold counter as it found it (lock-balance)
				}
				x.havocHeap(st, k)
			}
			x.havocAllSeen = true
	x.havocAllPCs = append(x.havocAllPCs, st.pc)
			continue
		}
		if strings.HasPrefix(m, "arg:") {
			// the object the named pointer argument points to (one level): every field of it
			// gets an arbitrary value, nothing else changes
			pn := strings.TrimSpace(strings.TrimPrefix(m, "arg:"))
			for i, prm := range ct.Params {
				if prm.Name != pn || i >= len(c.Args) {
					continue
				}
				at := fr.typeOf(c.Args[i])
				pt, ok := at.Underlying().(*types.Pointer)
				if !ok {
					fr.unsupported(st, c, "modifies arg: argument is not a pointer", nil)
					continue
				}
				ref := names[pn]
				if stt, ok := pt.Elem().Underlying().(*types.Struct); ok && x.u.sortOf(pt.Elem()) != "Time" {
					for j := 0; j < stt.NumFields(); j++ {
						f := stt.Field(j)
						hv := x.havocVal("out_"+f.Name(), f.Type())
						x.emitTypeFact(st, hv)
						x.writeField(st, ref, pt.Elem(), f, hv)
					}
				} else {
					hv := x.havocVal("out", pt.Elem())
					x.emitTypeFact(st, hv)
					x.writeCell(st, ref, hv)
				}
			}
			continue
		}
		fresh := strings.HasPrefix(m, "fresh ")
		for _, k := range x.placeKeys(x.eng.pkgs[ct.Pkg], m) {
			old := x.getHeap(st, k)
			x.havocHeap(st, k)
			if fresh {
				q := "r$q" + fmt.Sprint(x.nextQ())
				x.u.gfact(st.pc, fmt.Sprintf("(forall ((%s Int)) (! (=> (< %s %s) (= (select %s %s) (select %s %s))) :pattern ((select %s %s))))", q, q, pre.next, x.getHeap(st, k), q, old, q, x.getHeap(st, k), q))
			}
		}
	}
	nn := x.u.fresh("next", "Int")
	x.u.fact("(>= " + nn + " " + st.next + ")")
	st.next = nn
	for _, r := range results {
		x.emitTypeFact(st, r)
	}
	if ct.Counts != "" {
		x.countInc(st, ct.Counts)
	}
	// ghost call counters the callee's body may advance (beyond the one its contract counts)
	if !ct.Trusted {
		if decl, dpkg := x.eng.funcDecl(fn); decl != nil && decl.Body != nil {
			sub := &Frame{x: x, pkg: dpkg, info: dpkg.TypesInfo, depth: 1, loopOrd: map[string]int{}, atOrd: map[string]int{}, closureOrd: map[string]int{}}
			sm := sub.collectMods([]ast.Node{decl.Body}, nil)
			var ks []string
			for k := range sm.counts {
				ks = append(ks, k)
			}
			sort.Strings(ks)
			// a callee that takes a declared monitor has released it by the time it returns: what it
			// told the caller about the guarded state is stale once the caller acquires the monitor
			var mks []string
			for k := range sm.heapKeys {
				if strings.HasPrefix(k, "mutex:") && x.eng.monitors[k] != nil {
					mks = append(mks, k)
				}
			}
			sort.Strings(mks)
			for _, k := range mks {
				st.ghost["mrel:"+k] = Val{T: "true", S: "Bool"}
			}
			for _, k := range ks {
				if k == ct.Counts {
					continue
				}
				if cur, ok := st.ghost["count:"+k]; ok {
					n := x.u.fresh("cnt", "Int")
					x.u.gfact(st.pc, "(>= "+n+" "+cur.T+")")
					st.ghost["count:"+k] = Val{T: n, S: "Int"}
				}
			}
		}
	}
	env.st = st
	for _, e := range ct.Ensures {
		if sc, ok := e.Expr.(*SCall); ok && sc.Fun == "hasFormat" {
			if !fr.establishFormat(env, sc) {
				x.u.oblige("call:"+key+":ensures:"+e.Label+suffix, "contract-stale", e.Src, fr.pos(c.Pos()), st.pc, "false").Clause = "contract-stale: hasFormat post-condition cannot be instantiated at this call"
			}
			continue
		}
		t, err := fr.evalClause(env, e)
		if err != nil {
			x.u.oblige("call:"+key+":ensures:"+e.Label+suffix, "contract-stale", e.Src, fr.pos(c.Pos()), st.pc, "false").Clause = "contract-stale: " + err.Error()
			continue
		}
		x.u.gfact(st.pc, t)
	}
	x.usedContracts[ct.Pkg+"::"+key] = ct
	return results
}

func (fr *Frame) safetyNilRecv(st *State, c *ast.CallExpr, v Val) {
	// a nil pointer receiver does not panic by itself; the callee's requires handles it
}

// inlineCall executes the body of an in-repo callee that has no contract.
func (fr *Frame) inlineCall(st *State, c *ast.CallExpr, fn *types.Func, decl *ast.FuncDecl, dpkg *pkgT) []Val {
	x := fr.x
	sig := fn.Type().(*types.Signature)
	sub := &Frame{x: x, pkg: dpkg, info: dpkg.TypesInfo, sig: sig, safe: fr.safe, depth: fr.depth + 1,
		fnName: fn.FullName(), inlineStack: append(append([]string{}, fr.inlineStack...), fn.FullName()),
		loopOrd: map[string]int{}, atOrd: map[string]int{}, closureOrd: map[string]int{}, body: decl.Body}
	// bind receiver and parameters in the shared variable map (objects are distinct)
	if decl.Recv != nil && len(decl.Recv.List) == 1 && len(decl.Recv.List[0].Names) == 1 {
		rv := fr.recvEval(st, c)
		if rv != nil {
			v := *rv
			_, wantPtr := sig.Recv().Type().Underlying().(*types.Pointer)
			_, havePtr := v.Ty.Underlying().(*types.Pointer)
			if !wantPtr && havePtr {
				fr.safety(st, "nil-deref", fr.src(c.Fun), c, "(not (= "+v.T+" 0))")
				v = x.deref(st, v, true)
			} else if wantPtr && !havePtr {
				if pv, ok := fr.implicitAddr(st, c); ok {
					v = pv
				} else {
					v = fr.unsupported(st, c, "implicit address-of receiver", sig.Recv().Type())
				}
			}
			if o, ok := dpkg.TypesInfo.Defs[decl.Recv.List[0].Names[0]].(*types.Var); ok {
				x.declVar(st, o, v)
			}
		}
	} else if decl.Recv != nil {
		fr.recvEval(st, c)
	}
	var argv []Val
	for i, a := range c.Args {
		var pt types.Type
		if i < sig.Params().Len() {
			pt = sig.Params().At(i).Type()
		}
		argv = append(argv, fr.exprAs(st, a, pt))
	}
	pi := 0
	if decl.Type.Params != nil {
		for _, fld := range decl.Type.Params.List {
			for _, nm := range fld.Names {
				if o, ok := dpkg.TypesInfo.Defs[nm].(*types.Var); ok && pi < len(argv) {
					if sig.Variadic() && pi == sig.Params().Len()-1 {
						// variadic: pack remaining args
						if c.Ellipsis.IsValid() {
							x.declVar(st, o, argv[pi])
						} else {
							x.declVar(st, o, x.havocVal(o.Name(), o.Type()))
						}
					} else {
						x.declVar(st, o, argv[pi])
					}
				}
				pi++
			}
			if len(fld.Names) == 0 {
				pi++
			}
		}
	}
	if decl.Type.Results != nil {
		for _, fld := range decl.Type.Results.List {
			for _, nm := range fld.Names {
				if o, ok := dpkg.TypesInfo.Defs[nm].(*types.Var); ok {
					x.declVar(st, o, x.zeroVal(o.Type()))
					sub.named = append(sub.named, o)
				}
			}
		}
	}
	return sub.runBody(st, decl.Body, c)
}

// runBody executes a body in-place and merges its return states back into st.
func (sub *Frame) runBody(st *State, body *ast.BlockStmt, at ast.Node) []Val {
	x := sub.x
	f := sub.block(st, body.List)
	rets := f.rets
	if f.next != nil {
		var vals []Val
		for _, nv := range sub.named {
			{
				gv, _ := x.getVar(f.next, nv)
				vals = append(vals, gv)
			}
		}
		rets = append(rets, retState{f.next, vals})
	}
	nres := sub.sig.Results().Len()
	if len(rets) == 0 {
		// callee never returns normally (panics on all paths)
		st.pc = "false"
		var out []Val
		for i := 0; i < nres; i++ {
			out = append(out, x.zeroVal(sub.sig.Results().At(i).Type()))
		}
		return out
	}
	var states []*State
	for _, r := range rets {
		states = append(states, r.st)
	}
	// result values: one fresh const per result
	var out []Val
	for i := 0; i < nres; i++ {
		t := sub.sig.Results().At(i).Type()
		s := x.u.sortOf(t)
		if len(rets) == 1 && i < len(rets[0].vals) {
			v := rets[0].vals[i]
			out = append(out, Val{T: v.T, S: v.S, Ty: t})
			continue
		}
		n := x.u.fresh("ret", s)
		for _, r := range rets {
			if i < len(r.vals) {
				x.u.fact("(=> " + r.st.pc + " (= " + n + " " + r.vals[i].T + "))")
			}
		}
		out = append(out, Val{T: n, S: s, Ty: t})
	}
	m := x.merge(states)
	// deferred calls of the inlined function
	m = sub.runDefers(m)
	for _, dc := range sub.defers {
		delete(m.ghost, deferKey(dc)) // the next activation of the function starts without registered defers
	}
	*st = *m
	return out
}

func (fr *Frame) inlineLit(st *State, c *ast.CallExpr, lit *ast.FuncLit, owner *Frame) []Val {
	var argv []Val
	for _, a := range c.Args {
		argv = append(argv, fr.expr(st, a))
	}
	return fr.inlineLitArgs(st, c, lit, owner, argv)
}

// inlineLitArgs executes a function literal with the given argument values (library models
// that run a callback, e.g. badger's View/Update/Value).
func (fr *Frame) inlineLitArgs(st *State, c *ast.CallExpr, lit *ast.FuncLit, owner *Frame, argv []Val) []Val {
	x := fr.x
	sig := owner.info.Types[lit].Type.(*types.Signature)
	sub := &Frame{x: x, pkg: owner.pkg, info: owner.info, sig: sig, safe: fr.safe, depth: fr.depth + 1,
		fnName: owner.fnName + "$lit", inlineStack: fr.inlineStack, contract: owner.contract, specNames: owner.specNames, modsInfo: owner.modsInfo, unitBody: owner.rootBody(), unitLo: owner.unitLo, unitHi: owner.unitHi,
		loopOrd: map[string]int{}, atOrd: map[string]int{}, closureOrd: map[string]int{}, body: lit.Body}
	pi := 0
	if lit.Type.Params != nil {
		for _, fld := range lit.Type.Params.List {
			for _, nm := range fld.Names {
				if o, ok := owner.info.Defs[nm].(*types.Var); ok && pi < len(argv) {
					x.declVar(st, o, argv[pi])
				}
				pi++
			}
		}
	}
	if lit.Type.Results != nil {
		for _, fld := range lit.Type.Results.List {
			for _, nm := range fld.Names {
				if o, ok := owner.info.Defs[nm].(*types.Var); ok {
					x.declVar(st, o, x.zeroVal(o.Type()))
					sub.named = append(sub.named, o)
				}
			}
		}
	}
	return sub.runBody(st, lit.Body, c)
}

func (fr *Frame) builtin(st *State, c *ast.CallExpr, name string) []Val {
	x := fr.x
	rt := fr.typeOf(c)
	switch name {
	case "len", "cap":
		v := fr.expr(st, c.Args[0])
		if _, ok := v.Ty.Underlying().(*types.Chan); ok {
			r := x.havocVal("chanlen", types.Typ[types.Int])
			x.u.fact("(>= " + r.T + " 0)")
			return []Val{r}
		}
		if _, ok := v.Ty.Underlying().(*types.Pointer); ok {
			v = x.deref(st, v, true)
		}
		l := x.lenOf(st, v)
		if name == "cap" {
			r := x.havocVal("cap", types.Typ[types.Int])
			x.u.fact("(>= " + r.T + " " + l.T + ")")
			return []Val{r}
		}
		return []Val{l}
	case "append":
		s := fr.expr(st, c.Args[0])
		if c.Ellipsis.IsValid() {
			o := fr.expr(st, c.Args[1])
			return []Val{fr.appendSlice(st, s, o, rt)}
		}
		cur := s
		curFmt := x.fmtOf[s.T]
		for _, a := range c.Args[1:] {
			v := fr.exprAs(st, a, elemType(rt))
			id := sortId(v.S)
			ss := x.u.sliceSort(v.S)
			cur = x.bind(Val{T: fmt.Sprintf("(mk_%s (store (sarr_%s %s) (slen_%s %s) %s) (+ (slen_%s %s) 1) false)", ss, id, cur.T, id, cur.T, v.T, id, cur.T), S: ss, Ty: rt}, "app")
			// a constant byte appended to a format-structured string extends its last literal
			if curFmt != nil {
				if ch, ok := constInt(v.T); ok && ch > 0 && ch < 128 {
					nf := &FmtStr{segs: append([]fseg{}, curFmt.segs...)}
					if n := len(nf.segs); n > 0 && nf.segs[n-1].kind == "lit" {
						nf.segs[n-1].lit += string(rune(ch))
					} else {
						nf.segs = append(nf.segs, fseg{kind: "lit", lit: string(rune(ch))})
					}
					curFmt = nf
				} else {
					curFmt = nil
				}
			}
		}
		if curFmt != nil {
			if len(cur.T) > 48 || cur.T == s.T {
				n := x.u.fresh("app", cur.S)
				x.u.fact("(= " + n + " " + cur.T + ")")
				cur = Val{T: n, S: cur.S, Ty: cur.Ty}
			}
			x.setFmt(cur.T, curFmt)
		}
		return []Val{cur}
	case "make":
		t := fr.typeOf(c.Args[0])
		switch tt := t.Underlying().(type) {
		case *types.Slice:
			n := fr.expr(st, c.Args[1])
			fr.safety(st, "make-size", fr.src(c), c, "(>= "+n.T+" 0)")
			es := x.u.sortOf(tt.Elem())
			ss := x.u.sliceSort(es)
			arr := x.u.fresh("mk", "(Array Int "+es+")")
			z := x.zeroVal(tt.Elem())
			q := "j$q" + fmt.Sprint(x.nextQ())
			x.u.fact(fmt.Sprintf("(forall ((%s Int)) (! (= (select %s %s) %s) :pattern ((select %s %s))))", q, arr, q, z.T, arr, q))
			return []Val{x.bind(Val{T: fmt.Sprintf("(mk_%s %s %s false)", ss, arr, n.T), S: ss, Ty: t}, "mk")}
		case *types.Map:
			r := x.alloc(st, "map")
			dom, _, ks, _ := x.u.mapKeys(tt)
			ed := x.u.fresh("emptydom", "(Array "+ks+" Bool)")
			q := "k$q" + fmt.Sprint(x.nextQ())
			x.u.fact(fmt.Sprintf("(forall ((%s %s)) (! (not (select %s %s)) :pattern ((select %s %s))))", q, ks, ed, q, ed, q))
		x.u.fact(fmt.Sprintf("(= (%s %s) 0)", x.mapcardFn(ks), ed))
			x.heapStore(st, dom, r, ed)
			return []Val{{T: r, S: "Int", Ty: t}}
		case *types.Chan:
			r := x.alloc(st, "chan")
			nk, _, _ := x.chanKeys(tt.Elem())
			x.heapStore(st, nk, r, "0")
			if len(c.Args) > 1 {
				capv := fr.expr(st, c.Args[1])
				x.u.regHeap("chan.cap", "(Array Int Int)")
				x.heapStore(st, "chan.cap", r, capv.T)
			}
			return []Val{{T: r, S: "Int", Ty: t}}
		}
	case "new":
		t := fr.typeOf(c.Args[0])
		r := x.alloc(st, "new")
		p := Val{T: r, S: "Int", Ty: types.NewPointer(t)}
		if stt, ok := t.Underlying().(*types.Struct); ok && x.eng.inRepo(t) {
			for i := 0; i < stt.NumFields(); i++ {
				x.writeField(st, p, t, stt.Field(i), x.zeroVal(stt.Field(i).Type()))
			}
		} else if _, ok := t.Underlying().(*types.Struct); !ok {
			x.writeCell(st, p, x.zeroVal(t))
		}
		libNew(fr, st, p, t)
		return []Val{p}
	case "delete":
		m := fr.expr(st, c.Args[0])
		k := fr.expr(st, c.Args[1])
		fr.guardedMapAccess(st, c, m, "write")
		x.mapDelete(st, m, k)
		return nil
	case "copy":
		return []Val{fr.copyBuiltin(st, c)}
	case "panic":
		fr.safety(st, "panic", fr.src(c), c, "false")
		st.pc = "false"
		return nil
	case "min", "max":
		a, b := fr.expr(st, c.Args[0]), fr.expr(st, c.Args[1])
		op := "<="
		if name == "max" {
			op = ">="
		}
		return []Val{x.bind(Val{T: fmt.Sprintf("(ite (%s %s %s) %s %s)", op, a.T, b.T, a.T, b.T), S: "Int", Ty: rt}, name)}
	case "print", "println", "close", "recover":
		for _, a := range c.Args {
			fr.expr(st, a)
		}
		if name == "recover" {
			return []Val{x.havocVal("rec", rt)}
		}
		return nil
	}
	return []Val{fr.unsupported(st, c, "builtin "+name, rt)}
}

func (fr *Frame) appendSlice(st *State, s, o Val, rt types.Type) Val {
	x := fr.x
	es := x.u.sortOf(elemType(rt))
	id := sortId(es)
	ss := x.u.sliceSort(es)
	if o.S == "GoString" {
		x.need("str2bytes")
		o = Val{T: "(str2bytes " + o.T + ")", S: ss}
	}
	if es == "Int" {
		// byte / reference slices: the prelude function, so that equal operands give equal terms
		x.need("catbytes")
		r := x.bind(Val{T: "(catbytes " + s.T + " " + o.T + ")", S: ss, Ty: rt}, "app")
		return r
	}
	arr := x.u.fresh("cat", "(Array Int "+es+")")
	q := "j$q" + fmt.Sprint(x.nextQ())
	ls := "(slen_" + id + " " + s.T + ")"
	lo := "(slen_" + id + " " + o.T + ")"
	x.u.fact(fmt.Sprintf("(forall ((%s Int)) (! (= (select %s %s) (ite (< %s %s) (select (sarr_%s %s) %s) (select (sarr_%s %s) (- %s %s)))) :pattern ((select %s %s))))",
		q, arr, q, q, ls, id, s.T, q, id, o.T, q, ls, arr, q))
	return x.bind(Val{T: fmt.Sprintf("(mk_%s %s (+ %s %s) false)", ss, arr, ls, lo), S: ss, Ty: rt}, "app")
}

// copyBuiltin supports copy(dst[a:b], src) where dst is an addressable fixed array or slice variable.
func (fr *Frame) copyBuiltin(st *State, c *ast.CallExpr) Val {
	x := fr.x
	it := types.Typ[types.Int]
	src := fr.expr(st, c.Args[1])
	if src.S == "GoString" {
		x.need("str2bytes")
		src = Val{T: "(str2bytes " + src.T + ")", S: x.u.sliceSort("Int"), Ty: types.NewSlice(types.Typ[types.Uint8])}
	}
	srcLen := x.lenOf(st, src).T
	dstE := ast.Unparen(c.Args[0])
	var base ast.Expr
	lo := "0"
	var hiV *Val
	if se, ok := dstE.(*ast.SliceExpr); ok {
		base = se.X
		if se.Low != nil {
			lo = fr.expr(st, se.Low).T
		}
		if se.High != nil {
			v := fr.expr(st, se.High)
			hiV = &v
		}
	} else {
		base = dstE
	}
	b := fr.expr(st, base)
	blen := x.lenOf(st, b).T
	hi := blen
	if hiV != nil {
		hi = hiV.T
	}
	fr.safety(st, "slice-bounds", fr.src(c.Args[0]), c, fmt.Sprintf("(and (<= 0 %s) (<= %s %s) (<= %s %s))", lo, lo, hi, hi, blen))
	n := x.bind(Val{T: fmt.Sprintf("(ite (<= %s (- %s %s)) %s (- %s %s))", srcLen, hi, lo, srcLen, hi, lo), S: "Int", Ty: it}, "ncopy")
	x.u.fact("(>= " + n.T + " 0)")
	sid := sortId(sliceElemSortOf(src.S))
	if nn, ok := isFixedSort(b.S); ok {
		nb := x.u.fresh("cp", b.S)
		q := "j$q" + fmt.Sprint(x.nextQ())
		x.u.fact(fmt.Sprintf("(forall ((%s Int)) (! (= (at%d %s %s) (ite (and (<= %s %s) (< %s (+ %s %s))) (select (sarr_%s %s) (- %s %s)) (at%d %s %s))) :pattern ((at%d %s %s))))",
			q, nn, nb, q, lo, q, q, lo, n.T, sid, src.T, q, lo, nn, b.T, q, nn, nb, q))
		fr.assign(st, base, Val{T: nb, S: b.S, Ty: b.Ty})
		return n
	}
	if strings.HasPrefix(b.S, "Slice_") {
		id := sortId(sliceElemSortOf(b.S))
		arr := x.u.fresh("cp", "(Array Int "+sliceElemSortOf(b.S)+")")
		q := "j$q" + fmt.Sprint(x.nextQ())
		x.u.fact(fmt.Sprintf("(forall ((%s Int)) (! (= (select %s %s) (ite (and (<= %s %s) (< %s (+ %s %s))) (select (sarr_%s %s) (- %s %s)) (select (sarr_%s %s) %s))) :pattern ((select %s %s))))",
			q, arr, q, lo, q, q, lo, n.T, sid, src.T, q, lo, id, b.T, q, arr, q))
		fr.assign(st, base, Val{T: fmt.Sprintf("(mk_%s %s (slen_%s %s) false)", b.S, arr, id, b.T), S: b.S, Ty: b.Ty})
		return n
	}
	fr.unsupported(st, c, "copy destination", nil)
	return n
}

func sortedContracts(m map[string]*Contract) []string {
	var ks []string
	for k := range m {
		ks = append(ks, k)
	}
	sort.Strings(ks)
	return ks
}

// labelCardinality: (*prometheus.XxxVec).WithLabelValues panics when the number of values
// differs from the number of labels the vector was declared with. For a vector held in a
// package-level variable initialised by New...Vec(opts, []string{...}) both numbers are known:
// a mismatch is a crash on every execution of the call (obligation lib:prometheus-label-cardinality).
func (fr *Frame) labelCardinality(st *State, c *ast.CallExpr, fn *types.Func) {
	if fn.Name() != "WithLabelValues" || fn.Pkg() == nil || !strings.Contains(fn.Pkg().Path(), "prometheus") || c.Ellipsis.IsValid() {
		return
	}
	se, ok := ast.Unparen(c.Fun).(*ast.SelectorExpr)
	if !ok {
		return
	}
	var obj types.Object
	switch r := ast.Unparen(se.X).(type) {
	case *ast.Ident:
		obj = fr.info.ObjectOf(r)
	case *ast.SelectorExpr:
		obj = fr.info.ObjectOf(r.Sel)
	}
	v, ok := obj.(*types.Var)
	if !ok || v.Pkg() == nil || v.Parent() != v.Pkg().Scope() {
		return
	}
	n, ok := fr.x.eng.declaredLabels(v)
	if !ok || n == len(c.Args) {
		return
	}
	fr.x.used("prometheus vectors in package-level variables: WithLabelValues is called with as many values as labels were declared")
	fr.x.u.oblige("lib:prometheus-label-cardinality:"+v.Name(), "safe", fmt.Sprintf("%s was declared with %d labels, WithLabelValues is called with %d values (panics)", v.Name(), n, len(c.Args)), fr.pos(c.Pos()), st.pc, "false")
}

// declaredLabels finds `var v = ....New*Vec(opts, []string{...})` and counts the labels.
func (e *Engine) declaredLabels(v *types.Var) (int, bool) {
	for _, p := range e.pkgs {
		if p == nil || p.Types != v.Pkg() || p.TypesInfo == nil {
			continue
		}
		for _, f := range p.Syntax {
			for _, d := range f.Decls {
				gd, ok := d.(*ast.GenDecl)
				if !ok {
					continue
				}
				for _, sp := range gd.Specs {
					vs, ok := sp.(*ast.ValueSpec)
					if !ok {
						continue
					}
					for i, nm := range vs.Names {
						if p.TypesInfo.Defs[nm] != v || i >= len(vs.Values) {
							continue
						}
						call, ok := ast.Unparen(vs.Values[i]).(*ast.CallExpr)
						if !ok || len(call.Args) == 0 {
							return 0, false
						}
						cl, ok := ast.Unparen(call.Args[len(call.Args)-1]).(*ast.CompositeLit)
						if !ok {
							return 0, false
						}
						if at, ok := cl.Type.(*ast.ArrayType); !ok || at.Len != nil {
							return 0, false
						}
						return len(cl.Elts), true
					}
				}
			}
		}
	}
	return 0, false
}
