package main

import (
	"bytes"
	"fmt"
	"go/ast"
	"go/printer"
	"go/token"
	"go/types"
	"os"
	"os/exec"
	"path/filepath"
	"regexp"
	"sort"
	"strings"

	"golang.org/x/tools/go/packages"
)

type pkgT = packages.Package

type funSig struct {
	args  []string
	res   string
	block string
}

type preludeBlock struct {
	name     string
	requires []string
	text     string
}

type Engine struct {
	keyFmt      *FmtStr
	keyFmtErr   string
	cellVars    map[*types.Var]bool
	cntNames    []string
	fset        *token.FileSet
	repo        string
	verifDir    string
	pkgs        map[string]*packages.Package
	contracts   map[string]*Contract // pkg::Key
	preds       map[string]*Contract // pkg::name and ::name
	appended    map[string]bool // fields that are the first argument of an append somewhere in the loaded repo packages
	monitors    map[string]*Contract // mutex heap key ("mutex:<pkg>.<Type>.<field>") -> monitor block
	lemmas      map[string]*Contract
	allBlocks   []*Contract
	preludeFuns map[string]funSig
	blocks      map[string]*preludeBlock
	blockOrder  []string
	typeTags    map[string]int
	funcDecls   map[*types.Func]*ast.FuncDecl
	funcPkg     map[*types.Func]*packages.Package
	declsIndexed bool
	loadErrs    []string
	xlangErr    string
}

func (e *Engine) nodeSrc(n ast.Node) string {
	var b bytes.Buffer
	printer.Fprint(&b, e.fset, n)
	return b.String()
}

func (e *Engine) typeTag(t types.Type) int {
	k := types.TypeString(t, nil)
	if v, ok := e.typeTags[k]; ok {
		return v
	}
	v := len(e.typeTags) + 1
	e.typeTags[k] = v
	return v
}

func (e *Engine) namedType(pkgPath, name string) types.Type {
	if p, ok := e.pkgs[pkgPath]; ok && p.Types != nil {
		if o := p.Types.Scope().Lookup(name); o != nil {
			return o.Type()
		}
	}
	return types.Typ[types.Invalid]
}

func (e *Engine) inRepo(t types.Type) bool {
	if n, ok := t.(*types.Named); ok && n.Obj().Pkg() != nil {
		return strings.HasPrefix(n.Obj().Pkg().Path(), "github.com/alephium/wormhole-fork")
	}
	return false
}

var purePkgs = []string{"go.uber.org/zap", "github.com/prometheus/", "fmt", "errors", "log", "strings", "strconv", "encoding/hex", "encoding/json",
	"github.com/mr-tron/base58", "unicode", "sort", "math", "time", "github.com/ethereum/go-ethereum/common", "github.com/ethereum/go-ethereum/crypto", "bytes", "math/big",
	"google.golang.org/protobuf/proto", "github.com/alephium/wormhole-fork/node/pkg/supervisor", "github.com/alephium/wormhole-fork/node/pkg/reporter", "context",
	"google.golang.org/grpc", "regexp", "github.com/google/uuid", "github.com/eko/gocache/v3/store", "github.com/libp2p/go-libp2p/core/peer", "github.com/ethereum/go-ethereum/ethclient", "github.com/ethereum/go-ethereum/event", "github.com/ethereum/go-ethereum/accounts/abi/bind", "github.com/alephium/wormhole-fork/node/pkg/ethereum/abi", "github.com/alephium/wormhole-fork/node/pkg/version", "github.com/alephium/wormhole-fork/node/pkg/readiness", "sync", "sync/atomic"}

// isPurePkg: callee belongs to a package whose functions are modelled as returning
// arbitrary values without touching the modelled heap (logging, metrics, formatting,
// value-level helpers). Listed in evidence as an assumption.
func (e *Engine) isPurePkg(fn *types.Func) bool {
	if fn.Pkg() == nil {
		return true // error.Error etc.
	}
	p := fn.Pkg().Path()
	for _, pp := range purePkgs {
		if p == pp || strings.HasPrefix(p, pp) {
			return true
		}
	}
	if strings.Contains(p, "/proto/") { // generated protobuf getters
		return true
	}
	// getters of the gossip envelope and the libp2p host: values of the message / host, no effect
	switch fn.FullName() {
	case "(*github.com/libp2p/go-libp2p-pubsub.Message).GetFrom", "(github.com/libp2p/go-libp2p/core/host.Host).ID",
		"(github.com/libp2p/go-libp2p/core/peer.ID).String":
		return true
	}
	return false
}

func (e *Engine) indexDecls() {
	if e.declsIndexed {
		return
	}
	e.declsIndexed = true
	e.funcDecls = map[*types.Func]*ast.FuncDecl{}
	e.funcPkg = map[*types.Func]*packages.Package{}
	for _, p := range e.pkgs {
		if !strings.HasPrefix(p.PkgPath, "github.com/alephium/wormhole-fork") || p.TypesInfo == nil {
			continue
		}
		for _, f := range p.Syntax {
			for _, d := range f.Decls {
				if fd, ok := d.(*ast.FuncDecl); ok {
					if fn, ok := p.TypesInfo.Defs[fd.Name].(*types.Func); ok {
						e.funcDecls[fn] = fd
						e.funcPkg[fn] = p
					}
				}
			}
		}
	}
}

func (e *Engine) funcDecl(fn *types.Func) (*ast.FuncDecl, *packages.Package) {
	e.indexDecls()
	fn = fn.Origin()
	return e.funcDecls[fn], e.funcPkg[fn]
}

func recvString(sig *types.Signature) string {
	if sig.Recv() == nil {
		return ""
	}
	t := sig.Recv().Type()
	ptr := ""
	if p, ok := t.(*types.Pointer); ok {
		ptr = "*"
		t = p.Elem()
	}
	if n, ok := t.(*types.Named); ok {
		return ptr + n.Obj().Name()
	}
	return ptr + "?"
}

func (e *Engine) findContract(fn *types.Func) *Contract {
	if fn.Pkg() == nil {
		return nil
	}
	sig := fn.Type().(*types.Signature)
	key := fn.Name()
	if r := recvString(sig); r != "" {
		key = "(" + r + ")." + fn.Name()
	}
	return e.contracts[fn.Pkg().Path()+"::"+key]
}

func (e *Engine) findPred(pkg *packages.Package, name string) *Contract {
	if strings.Contains(name, ".") {
		parts := strings.SplitN(name, ".", 2)
		for path, p := range e.pkgs {
			if p.Name == parts[0] {
				if c, ok := e.preds[path+"::"+parts[1]]; ok {
					return c
				}
			}
		}
		return nil
	}
	if pkg != nil {
		if c, ok := e.preds[pkg.PkgPath+"::"+name]; ok {
			return c
		}
	}
	if c, ok := e.preds["::"+name]; ok {
		return c
	}
	return nil
}

func (e *Engine) findLemma(pkg *packages.Package, name string) *Contract {
	if j := strings.LastIndex(name, "."); j >= 0 {
		name = name[j+1:]
	}
	if pkg != nil {
		if c, ok := e.lemmas[pkg.PkgPath+"::"+name]; ok {
			return c
		}
	}
	for k, c := range e.lemmas {
		if strings.HasSuffix(k, "::"+name) {
			return c
		}
	}
	return nil
}

// ---------- prelude ----------

var reDeclFun = regexp.MustCompile(`^\((declare-fun|define-fun)\s+(\S+)\s+\(`)

func (e *Engine) loadPrelude(path string) error {
	data, err := os.ReadFile(path)
	if err != nil {
		return err
	}
	if e.blocks == nil {
		e.blocks = map[string]*preludeBlock{}
		e.preludeFuns = map[string]funSig{}
	}
	return e.loadPreludeText(string(data))
}

// loadXlang runs the cross-language extractor on the current tree and loads its blocks.
func (e *Engine) loadXlang() {
	cmd := exec.Command("python3", filepath.Join(e.verifDir, "specs", "xlang", "extract.py"), e.repo)
	var out, errb bytes.Buffer
	cmd.Stdout, cmd.Stderr = &out, &errb
	if err := cmd.Run(); err != nil {
		e.xlangErr = strings.TrimSpace(errb.String())
		if e.xlangErr == "" {
			e.xlangErr = "SPEC-SOURCE-CHANGED: extractor failed: " + err.Error()
		}
		return
	}
	if err := e.loadPreludeText(out.String()); err != nil {
		e.xlangErr = "SPEC-SOURCE-CHANGED: " + err.Error()
	}
}

func (e *Engine) loadPreludeText(text string) error {
	data := []byte(text)
	var cur *preludeBlock
	for _, line := range strings.Split(string(data), "\n") {
		t := strings.TrimSpace(line)
		if strings.HasPrefix(t, "; @block") {
			f := strings.Fields(strings.TrimPrefix(t, "; @block"))
			cur = &preludeBlock{name: f[0]}
			if len(f) > 2 && f[1] == "requires" {
				cur.requires = f[2:]
			}
			e.blocks[cur.name] = cur
			e.blockOrder = append(e.blockOrder, cur.name)
			continue
		}
		if cur == nil || t == "" || strings.HasPrefix(t, ";") {
			continue
		}
		cur.text += line + "\n"
		if m := reDeclFun.FindStringSubmatch(t); m != nil {
			name := m[2]
			sig, ok := parseFunSig(t, m[1] == "define-fun")
			if ok {
				sig.block = cur.name
				e.preludeFuns[name] = sig
			}
		}
	}
	return nil
}

// parseFunSig extracts argument and result sorts of a declare-fun / define-fun line.
func parseFunSig(line string, define bool) (funSig, bool) {
	toks := sexpTokens(line)
	// ( declare-fun name ( sorts... ) res )
	if len(toks) < 6 {
		return funSig{}, false
	}
	i := 3 // after "(" kw name
	if toks[i] != "(" {
		return funSig{}, false
	}
	i++
	var args []string
	for toks[i] != ")" {
		if define {
			// ( name sort )
			if toks[i] != "(" {
				return funSig{}, false
			}
			i += 2
			s, n := readSort(toks, i)
			args = append(args, s)
			i = n
			if toks[i] != ")" {
				return funSig{}, false
			}
			i++
		} else {
			s, n := readSort(toks, i)
			args = append(args, s)
			i = n
		}
	}
	i++
	res, _ := readSort(toks, i)
	return funSig{args: args, res: res}, true
}

func readSort(toks []string, i int) (string, int) {
	if toks[i] != "(" {
		return toks[i], i + 1
	}
	depth := 0
	var parts []string
	for {
		t := toks[i]
		if t == "(" {
			depth++
		}
		if t == ")" {
			depth--
		}
		parts = append(parts, t)
		i++
		if depth == 0 {
			break
		}
	}
	s := strings.Join(parts, " ")
	s = strings.ReplaceAll(s, "( ", "(")
	s = strings.ReplaceAll(s, " )", ")")
	return s, i
}

func sexpTokens(s string) []string {
	var out []string
	cur := ""
	for _, r := range s {
		switch r {
		case '(', ')':
			if cur != "" {
				out = append(out, cur)
				cur = ""
			}
			out = append(out, string(r))
		case ' ', '\t', '\n':
			if cur != "" {
				out = append(out, cur)
				cur = ""
			}
		default:
			cur += string(r)
		}
	}
	if cur != "" {
		out = append(out, cur)
	}
	return out
}

func (x *Exec) need(name string) {
	blk := name
	if sig, ok := x.eng.preludeFuns[name]; ok {
		blk = sig.block
	}
	b, ok := x.eng.blocks[blk]
	if !ok {
		if x.eng.xlangErr != "" && (strings.HasPrefix(name, "sol_") || strings.HasPrefix(name, "ral_")) {
			specFail("%s", x.eng.xlangErr)
		}
		return
	}
	if x.needPrelude[blk] {
		return
	}
	x.needPrelude[blk] = true
	for _, r := range b.requires {
		switch {
		case strings.HasPrefix(r, "block:"):
			x.need(strings.TrimPrefix(r, "block:"))
		case strings.HasPrefix(r, "Slice_"):
			x.u.sliceSort(strings.TrimPrefix(r, "Slice_"))
		case r == "GoString" || r == "Time":
			x.u.declSort(r)
		default:
			if n, ok := isFixedSort(r); ok {
				x.u.fixedSort(n)
			}
		}
	}
	x.u.preludeBlocks = append(x.u.preludeBlocks, blk)
}

func (e *Engine) preludeFor(u *Unit) string {
	var b strings.Builder
	seen := map[string]bool{}
	for _, n := range e.blockOrder {
		for _, w := range u.preludeBlocks {
			if w == n && !seen[n] {
				seen[n] = true
				b.WriteString(e.blocks[n].text)
			}
		}
	}
	return b.String()
}

// ---------- loading ----------

func moduleRoot(dir string) string {
	for d := dir; d != "/" && d != "."; d = filepath.Dir(d) {
		if _, err := os.Stat(filepath.Join(d, "go.mod")); err == nil {
			return d
		}
	}
	return dir
}

// findContractFiles walks the repo for zz_contracts_verif.go files.
func (e *Engine) findContractFiles() ([]string, error) {
	var out []string
	err := filepath.Walk(e.repo, func(p string, info os.FileInfo, err error) error {
		if err != nil {
			return nil
		}
		if info.IsDir() {
			n := info.Name()
			if n == "node_modules" || n == ".git" || n == "vendor" || n == "third_party" {
				return filepath.SkipDir
			}
			return nil
		}
		if info.Name() == "zz_contracts_verif.go" {
			out = append(out, p)
		}
		return nil
	})
	sort.Strings(out)
	return out, err
}

func pkgPathOfDir(dir string) (string, error) {
	root := moduleRoot(dir)
	data, err := os.ReadFile(filepath.Join(root, "go.mod"))
	if err != nil {
		return "", err
	}
	mod := ""
	for _, l := range strings.Split(string(data), "\n") {
		if strings.HasPrefix(l, "module ") {
			mod = strings.TrimSpace(strings.TrimPrefix(l, "module "))
		}
	}
	rel, _ := filepath.Rel(root, dir)
	if rel == "." {
		return mod, nil
	}
	return mod + "/" + filepath.ToSlash(rel), nil
}

func (e *Engine) readAllContracts() error {
	files, err := e.findContractFiles()
	if err != nil {
		return err
	}
	e.contracts = map[string]*Contract{}
	e.preds = map[string]*Contract{}
	e.lemmas = map[string]*Contract{}
	e.monitors = map[string]*Contract{}
	for _, f := range files {
		pp, err := pkgPathOfDir(filepath.Dir(f))
		if err != nil {
			return err
		}
		cs, err := ReadContractFile(f, pp)
		if err != nil {
			return err
		}
		for _, c := range cs {
			e.allBlocks = append(e.allBlocks, c)
			switch c.Kind {
			case "func":
				e.contracts[pp+"::"+c.Key()] = c
			case "pred":
				e.preds[pp+"::"+c.Name] = c
				if _, dup := e.preds["::"+c.Name]; !dup {
					e.preds["::"+c.Name] = c
				}
			case "lemma":
				e.lemmas[pp+"::"+c.Name] = c
			case "monitor":
				e.monitors["mutex:"+shortPkg(pp)+"."+strings.TrimPrefix(c.RecvType, "*")+"."+c.Name] = c
			}
		}
	}
	return nil
}

// loadPackages loads the given package paths (grouped by module) from source.
func (e *Engine) loadPackages(paths []string) error {
	byMod := map[string][]string{}
	for _, p := range paths {
		// map package path to directory
		dir := e.dirOfPkg(p)
		if dir == "" {
			return fmt.Errorf("cannot locate package %s", p)
		}
		root := moduleRoot(dir)
		byMod[root] = append(byMod[root], p)
	}
	e.pkgs = map[string]*packages.Package{}
	var roots []string
	for r := range byMod {
		roots = append(roots, r)
	}
	sort.Strings(roots)
	for _, root := range roots {
		cfg := &packages.Config{
			Mode: packages.NeedName | packages.NeedFiles | packages.NeedSyntax | packages.NeedTypes | packages.NeedTypesInfo | packages.NeedDeps | packages.NeedImports,
			Dir:  root, Fset: e.fset,
			BuildFlags: []string{"-tags=verif", "-mod=mod"},
			Env:        append(os.Environ(), "GOFLAGS=-mod=mod", "GOPROXY=off", "GOSUMDB=off", "GOTOOLCHAIN=local", "CGO_ENABLED=1"),
		}
		ps, err := packages.Load(cfg, byMod[root]...)
		if err != nil {
			return err
		}
		packages.Visit(ps, nil, func(p *packages.Package) {
			if _, ok := e.pkgs[p.PkgPath]; !ok {
				e.pkgs[p.PkgPath] = p
			}
		})
		for _, p := range ps {
			for _, er := range p.Errors {
				e.loadErrs = append(e.loadErrs, p.PkgPath+": "+er.Error())
			}
		}
	}
	return nil
}

func (e *Engine) dirOfPkg(pp string) string {
	const prefix = "github.com/alephium/wormhole-fork/"
	if strings.HasPrefix(pp, prefix) {
		d := filepath.Join(e.repo, strings.TrimPrefix(pp, prefix))
		if st, err := os.Stat(d); err == nil && st.IsDir() {
			return d
		}
	}
	return ""
}

// fieldAppended reports whether some loaded in-repo package contains append(x.f, ...) for field f.
func (e *Engine) fieldAppended(f *types.Var) bool {
	key := func(v *types.Var) string {
		p := ""
		if v.Pkg() != nil {
			p = v.Pkg().Path()
		}
		return fmt.Sprintf("%s.%s@%d", p, v.Name(), v.Pos())
	}
	if e.appended == nil {
		e.appended = map[string]bool{}
		for _, pk := range e.pkgs {
			if pk == nil || pk.TypesInfo == nil {
				continue
			}
			for _, file := range pk.Syntax {
				ast.Inspect(file, func(n ast.Node) bool {
					c, ok := n.(*ast.CallExpr)
					if !ok || len(c.Args) == 0 {
						return true
					}
					id, ok := c.Fun.(*ast.Ident)
					if !ok || id.Name != "append" {
						return true
					}
					if se, ok := ast.Unparen(c.Args[0]).(*ast.SelectorExpr); ok {
						if sel := pk.TypesInfo.Selections[se]; sel != nil && sel.Kind() == types.FieldVal {
							if v, ok := sel.Obj().(*types.Var); ok {
								e.appended[key(v)] = true
							}
						}
					}
					return true
				})
			}
		}
	}
	return e.appended[key(f)]
}
