package main

// Evaluation of contract expressions to SMT terms.

import (
	"fmt"
	"go/ast"
	"go/constant"
	"go/parser"
	"go/types"
	"math/big"
	"regexp"
	"sort"
	"strings"

	"golang.org/x/tools/go/packages"
)

type SpecEnv struct {
	x     *Exec
	pkg   *packages.Package
	names map[string]Val
	st    *State
	old   *State
	bound map[string]bool
	loopI string
	depth int
	head  *SpecEnv // environment at the head of the innermost loop iteration (atHead)
	entry *SpecEnv // environment at the entry of the innermost loop (atEntry)
}

// inSnapshot evaluates x with heap and locals of a snapshot environment, keeping the
// variables bound by enclosing quantifiers.
func (e *SpecEnv) inSnapshot(snap *SpecEnv, x SExpr) Val {
	c := *snap
	c.names = map[string]Val{}
	for k, v := range snap.names {
		c.names[k] = v
	}
	for k, v := range e.names {
		if e.bound[v.T] {
			c.names[k] = v
		}
	}
	c.bound = e.bound
	c.depth = e.depth
	return c.Eval(x)
}

func (e *SpecEnv) child() *SpecEnv {
	n := *e
	n.names = map[string]Val{}
	for k, v := range e.names {
		n.names[k] = v
	}
	n.bound = map[string]bool{}
	for k := range e.bound {
		n.bound[k] = true
	}
	return &n
}

var reFixedFn = regexp.MustCompile(`^(at|bytes|from|upd)(\d+)$`)

type specErr struct{ msg string }

func specFail(f string, a ...interface{}) { panic(specErr{fmt.Sprintf(f, a...)}) }

func (e *SpecEnv) hasBound(t string) bool {
	for b := range e.bound {
		if containsToken(t, b) {
			return true
		}
	}
	return false
}

func containsToken(t, name string) bool {
	i := 0
	for {
		j := strings.Index(t[i:], name)
		if j < 0 {
			return false
		}
		j += i
		before := j == 0 || strings.ContainsRune(" ()", rune(t[j-1]))
		after := j+len(name) == len(t) || strings.ContainsRune(" ()", rune(t[j+len(name)]))
		if before && after {
			return true
		}
		i = j + 1
	}
}

func intLit(s string) string {
	n := new(big.Int)
	if _, ok := n.SetString(s, 0); !ok {
		specFail("bad int literal %s", s)
	}
	if n.Sign() < 0 {
		return "(- " + new(big.Int).Neg(n).String() + ")"
	}
	return n.String()
}

func (e *SpecEnv) Bool(x SExpr) string {
	v := e.Eval(x)
	if v.S != "Bool" {
		specFail("expected Bool, got %s for %v", v.S, v.T)
	}
	return v.T
}

func (e *SpecEnv) Eval(x SExpr) Val {
	u := e.x.u
	switch n := x.(type) {
	case *SLit:
		switch n.Kind {
		case "int":
			return Val{T: intLit(n.Val), S: "Int"}
		case "bool":
			return Val{T: n.Val, S: "Bool"}
		case "nil":
			return Val{T: "0", S: "Int"}
		case "string":
			return e.x.strLit(n.Val)
		}
	case *SIdent:
		if n.Name == "$i" {
			if e.loopI == "" {
				specFail("$i outside loop")
			}
			return Val{T: e.loopI, S: "Int"}
		}
		if v, ok := e.names[n.Name]; ok {
			return v
		}
		if g, ok := e.st.ghost[n.Name]; ok {
			return g
		}
		// package scope
		if v, ok := e.x.pkgName(e.pkg, e.st, n.Name); ok {
			return v
		}
		if sig, ok := e.x.eng.preludeFuns[n.Name]; ok && len(sig.args) == 0 {
			e.x.need(n.Name)
			return Val{T: n.Name, S: sig.res}
		}
		e.x.need(n.Name)
		specFail("unknown name %s", n.Name)
	case *SOld:
		if e.head != nil {
			// per-iteration clause: old() is the head of the iteration, locals included
			return e.inSnapshot(e.head, n.X)
		}
		c := *e
		if e.old == nil {
			specFail("old() not available here")
		}
		c.st = e.old
		return c.Eval(n.X)
	case *SUnary:
		switch n.Op {
		case "!":
			return Val{T: not(e.Bool(n.X)), S: "Bool"}
		case "-":
			v := e.Eval(n.X)
			return Val{T: "(- " + v.T + ")", S: "Int"}
		case "*":
			v := e.Eval(n.X)
			return e.x.deref(e.st, v, true)
		}
	case *SCond:
		c := e.Bool(n.C)
		a := e.Eval(n.A)
		b := e.Eval(n.B)
		return Val{T: "(ite " + c + " " + a.T + " " + b.T + ")", S: a.S, Ty: a.Ty}
	case *SBinary:
		switch n.Op {
		case "&&", "||", "==>", "<==>":
			a, b := e.Bool(n.X), e.Bool(n.Y)
			op := map[string]string{"&&": "and", "||": "or", "==>": "=>", "<==>": "="}[n.Op]
			return Val{T: "(" + op + " " + a + " " + b + ")", S: "Bool"}
		case "==", "!=":
			a, b := e.Eval(n.X), e.Eval(n.Y)
			t := e.equal(a, b)
			if n.Op == "!=" {
				t = not(t)
			}
			return Val{T: t, S: "Bool"}
		case "<", "<=", ">", ">=":
			a, b := e.Eval(n.X), e.Eval(n.Y)
			return Val{T: "(" + n.Op + " " + a.T + " " + b.T + ")", S: "Bool"}
		case "+", "-", "*":
			a, b := e.Eval(n.X), e.Eval(n.Y)
			return Val{T: "(" + n.Op + " " + a.T + " " + b.T + ")", S: "Int"}
		case "/":
			a, b := e.Eval(n.X), e.Eval(n.Y)
			return Val{T: "(div " + a.T + " " + b.T + ")", S: "Int"}
		case "%":
			a, b := e.Eval(n.X), e.Eval(n.Y)
			return Val{T: "(mod " + a.T + " " + b.T + ")", S: "Int"}
		}
	case *SSelector:
		// qualified package-level name?
		if id, ok := n.X.(*SIdent); ok {
			if _, isLocal := e.names[id.Name]; !isLocal {
				if p := e.x.importedPkg(e.pkg, id.Name); p != nil {
					if v, ok := e.x.pkgName(p, e.st, n.Sel); ok {
						return v
					}
					specFail("unknown %s.%s", id.Name, n.Sel)
				}
			}
		}
		b := e.Eval(n.X)
		return e.x.readFieldByName(e.st, b, n.Sel, !e.hasBound(b.T))
	case *SIndex:
		b := e.Eval(n.X)
		i := e.Eval(n.I)
		return e.x.indexVal(e.st, b, i, !e.hasBound(b.T) && !e.hasBound(i.T))
	case *SSlice:
		b := e.Eval(n.X)
		var lo, hi *Val
		if n.Lo != nil {
			v := e.Eval(n.Lo)
			lo = &v
		}
		if n.Hi != nil {
			v := e.Eval(n.Hi)
			hi = &v
		}
		return e.x.sliceVal(e.st, b, lo, hi)
	case *SQuant:
		c := e.child()
		q := "forall"
		conn := "=>"
		if !n.Forall {
			q, conn = "exists", "and"
		}
		vn := n.Var + "$q" + fmt.Sprint(e.x.nextQ())
		if n.Lo != nil {
			lo, hi := e.Eval(n.Lo), e.Eval(n.Hi)
			c.names[n.Var] = Val{T: vn, S: "Int"}
			c.bound[vn] = true
			body := c.Bool(n.Body)
			return Val{T: fmt.Sprintf("(%s ((%s Int)) (%s (and (<= %s %s) (< %s %s)) %s))", q, vn, conn, lo.T, vn, vn, hi.T, body), S: "Bool"}
		}
		if n.Dom != nil {
			m := e.Eval(n.Dom)
			mt, ok := m.Ty.Underlying().(*types.Map)
			if !ok {
				specFail("dom() of non-map")
			}
			dom, _, ks, _ := u.mapKeys(mt)
			c.names[n.Var] = Val{T: vn, S: ks, Ty: mt.Key()}
			c.bound[vn] = true
			body := c.Bool(n.Body)
			in := fmt.Sprintf("(select (select %s %s) %s)", e.x.getHeap(e.st, dom), m.T, vn)
			return Val{T: fmt.Sprintf("(%s ((%s %s)) (%s %s %s))", q, vn, ks, conn, in, body), S: "Bool"}
		}
		ty, srt := e.x.resolveTypeName(e.pkg, n.Type)
		c.names[n.Var] = Val{T: vn, S: srt, Ty: ty}
		c.bound[vn] = true
		body := c.Bool(n.Body)
		guard := ""
		if tf := u.typeFact(Val{T: vn, S: srt, Ty: ty}); tf != "" && n.Forall {
			guard = tf
		}
		if guard != "" {
			return Val{T: fmt.Sprintf("(%s ((%s %s)) (%s %s %s))", q, vn, srt, conn, guard, body), S: "Bool"}
		}
		return Val{T: fmt.Sprintf("(%s ((%s %s)) %s)", q, vn, srt, body), S: "Bool"}
	case *SCall:
		return e.call(n)
	}
	specFail("unsupported spec expression %T", x)
	return Val{}
}

// equal builds the equality appropriate for the sort (sequence equality for slices).
func (e *SpecEnv) equal(a, b Val) string {
	if strings.HasPrefix(a.S, "Slice_") && a.S == b.S {
		id := sortId(sliceElemSortOf(a.S))
		vn := "k$q" + fmt.Sprint(e.x.nextQ())
		pats := ""
		if !strings.Contains(a.T, "(ite ") {
			pats += fmt.Sprintf(" :pattern ((select (sarr_%s %s) %s))", id, a.T, vn)
		}
		if !strings.Contains(b.T, "(ite ") {
			pats += fmt.Sprintf(" :pattern ((select (sarr_%s %s) %s))", id, b.T, vn)
		}
		body := fmt.Sprintf("(=> (and (<= 0 %s) (< %s (slen_%s %s))) (= (select (sarr_%s %s) %s) (select (sarr_%s %s) %s)))", vn, vn, id, a.T, id, a.T, vn, id, b.T, vn)
		if pats != "" {
			body = "(! " + body + pats + ")"
		}
		return fmt.Sprintf("(and (= (slen_%s %s) (slen_%s %s)) (forall ((%s Int)) %s))", id, a.T, id, b.T, vn, body)
	}
	// nil compared with slice
	if strings.HasPrefix(a.S, "Slice_") && b.T == "0" && b.S == "Int" {
		return "(snil_" + sortId(sliceElemSortOf(a.S)) + " " + a.T + ")"
	}
	if strings.HasPrefix(b.S, "Slice_") && a.T == "0" && a.S == "Int" {
		return "(snil_" + sortId(sliceElemSortOf(b.S)) + " " + b.T + ")"
	}
	if n, ok := isFixedSort(a.S); ok && a.S == b.S {
		return fmt.Sprintf("(eq%d %s %s)", n, a.T, b.T)
	}
	if a.S != b.S {
		specFail("sort mismatch in ==: %s (%s) vs %s (%s)", a.T, a.S, b.T, b.S)
	}
	return "(= " + a.T + " " + b.T + ")"
}

func (e *SpecEnv) call(n *SCall) Val {
	x := e.x
	args := func() []Val {
		var vs []Val
		for _, a := range n.Args {
			vs = append(vs, e.Eval(a))
		}
		return vs
	}
	if strings.HasSuffix(n.Fun, "SinceEntry") {
		// unchangedSinceEntry / mapUnchangedSinceEntry / ...: old() is the entry of the innermost loop
		if e.entry == nil {
			specFail("%s outside a loop", n.Fun)
		}
		c := *e
		c.old = e.entry.st
		return c.call(&SCall{Fun: strings.TrimSuffix(n.Fun, "SinceEntry"), Args: n.Args})
	}
	if strings.HasSuffix(n.Fun, "SinceAcquire") {
		// old() is the state right after the latest acquisition of a declared monitor: what the
		// critical section itself did, whatever other goroutines did before it
		if x.lastAcq == nil {
			specFail("%s: no monitor was acquired before this point", n.Fun)
		}
		c := *e
		c.old = x.lastAcq
		return c.call(&SCall{Fun: strings.TrimSuffix(n.Fun, "SinceAcquire"), Args: n.Args})
	}
	if strings.HasSuffix(n.Fun, "SinceHead") {
		// old() is the head of the innermost loop iteration
		if e.head == nil {
			specFail("%s outside a loop body", n.Fun)
		}
		c := *e
		c.old = e.head.st
		return c.call(&SCall{Fun: strings.TrimSuffix(n.Fun, "SinceHead"), Args: n.Args})
	}
	switch n.Fun {
	case "len":
		v := e.Eval(n.Args[0])
		return x.lenOf(e.st, v)
	case "int", "int64", "uint64", "uint32", "uint16", "uint8", "uint", "int32", "byte":
		return Val{T: e.Eval(n.Args[0]).T, S: "Int"}
	case "wrap8", "wrap16", "wrap32", "wrap64":
		v := e.Eval(n.Args[0])
		bits := map[string]int{"wrap8": 8, "wrap16": 16, "wrap32": 32, "wrap64": 64}[n.Fun]
		return Val{T: "(mod " + v.T + " " + pow2[bits] + ")", S: "Int"}
	case "unchanged":
		// unchanged(T.f, ...) : heap arrays equal to old
		var cs []string
		for _, a := range n.Args {
			keys := x.placeKeys(e.pkg, specSrc(a))
			for _, k := range keys {
				cs = append(cs, "(= "+x.getHeap(e.st, k)+" "+x.getHeap(e.old, k)+")")
			}
		}
		if len(cs) == 0 {
			return Val{T: "true", S: "Bool"}
		}
		return Val{T: "(and " + strings.Join(cs, " ") + ")", S: "Bool"}
	case "unchangedExcept":
		// unchangedExcept(place, ref): the heap arrays of place agree with old() at every ref but ref
		r := e.Eval(n.Args[1])
		var cs []string
		for _, k := range x.placeKeys(e.pkg, specSrc(n.Args[0])) {
			q := "r$q" + fmt.Sprint(x.nextQ())
			cs = append(cs, fmt.Sprintf("(forall ((%s Int)) (! (=> (not (= %s %s)) (= (select %s %s) (select %s %s))) :pattern ((select %s %s))))", q, q, r.T, x.getHeap(e.st, k), q, x.getHeap(e.old, k), q, x.getHeap(e.st, k), q))
		}
		return Val{T: "(and " + strings.Join(cs, " ") + " true)", S: "Bool"}
	case "mapUnchanged", "mapUnchangedExcept":
		m := e.Eval(n.Args[0])
		mt, ok := m.Ty.Underlying().(*types.Map)
		if !ok {
			specFail("%s of non-map", n.Fun)
		}
		dom, val, ks, _ := x.u.mapKeys(mt)
		q := "k$q" + fmt.Sprint(x.nextQ())
		guard := "true"
		if n.Fun == "mapUnchangedExcept" {
			k := e.Eval(n.Args[1])
			guard = "(not (= " + q + " " + k.T + "))"
		}
		d1 := fmt.Sprintf("(select (select %s %s) %s)", x.getHeap(e.st, dom), m.T, q)
		d0 := fmt.Sprintf("(select (select %s %s) %s)", x.getHeap(e.old, dom), m.T, q)
		v1 := fmt.Sprintf("(select (select %s %s) %s)", x.getHeap(e.st, val), m.T, q)
		v0 := fmt.Sprintf("(select (select %s %s) %s)", x.getHeap(e.old, val), m.T, q)
		return Val{T: fmt.Sprintf("(forall ((%s %s)) (=> %s (and (= %s %s) (=> %s (= %s %s)))))", q, ks, guard, d1, d0, d1, v1, v0), S: "Bool"}
	case "ghostNow":
		if g, ok := e.st.ghost["now"]; ok {
			return g
		}
		return Val{T: x.now0(), S: "Int"}
	case "atHead":
		if e.head == nil {
			specFail("atHead() outside a loop body")
		}
		return e.inSnapshot(e.head, n.Args[0])
	case "atEntry":
		if e.entry == nil {
			specFail("atEntry() outside a loop")
		}
		return e.inSnapshot(e.entry, n.Args[0])
	case "visited":
		k := e.Eval(n.Args[0])
		g, ok := e.st.ghost["$visited"]
		if !ok {
			specFail("visited() outside a range-over-map loop")
		}
		return Val{T: "(select " + g.T + " " + k.T + ")", S: "Bool"}
	case "indom0":
		k := e.Eval(n.Args[0])
		g, ok := e.st.ghost["$dom0"]
		if !ok {
			specFail("indom0() outside a range-over-map loop")
		}
		return Val{T: "(select " + g.T + " " + k.T + ")", S: "Bool"}
	case "indom":
		m, k := e.Eval(n.Args[0]), e.Eval(n.Args[1])
		mt, ok := m.Ty.Underlying().(*types.Map)
		if !ok {
			specFail("indom of non-map")
		}
		dom, _, _, _ := x.u.mapKeys(mt)
		return Val{T: fmt.Sprintf("(select (select %s %s) %s)", x.getHeap(e.st, dom), m.T, k.T), S: "Bool"}
	case "fresh":
		v := e.Eval(n.Args[0])
		if e.old == nil {
			specFail("fresh() needs old state")
		}
		return Val{T: "(>= " + v.T + " " + e.old.next + ")", S: "Bool"}
	case "mine":
		// allocated by the unit under verification (since its entry): an object no other
		// goroutine can know unless the unit published it
		v := e.Eval(n.Args[0])
		return Val{T: "(>= " + v.T + " " + x.next0 + ")", S: "Bool"}
	case "allocated":
		v := e.Eval(n.Args[0])
		return Val{T: "(and (< 0 " + v.T + ") (< " + v.T + " " + e.st.next + "))", S: "Bool"}
	case "bufOf":
		w := e.Eval(n.Args[0])
		return Val{T: "(select " + x.getHeap(e.st, x.bufKey()) + " " + w.T + ")", S: x.bytesSort(), Ty: bytesT()}
	case "isBuffer":
		w := e.Eval(n.Args[0])
		x.need("dyntype")
		return Val{T: fmt.Sprintf("(= (dyntype %s) %d)", w.T, x.eng.typeTag(types.NewPointer(x.eng.namedType("bytes", "Buffer")))), S: "Bool"}
	case "readerPos":
		r := e.Eval(n.Args[0])
		_, ik := x.readerKeys()
		return Val{T: "(select " + x.getHeap(e.st, ik) + " " + r.T + ")", S: "Int"}
	case "readerData":
		r := e.Eval(n.Args[0])
		sk, _ := x.readerKeys()
		return Val{T: "(select " + x.getHeap(e.st, sk) + " " + r.T + ")", S: x.bytesSort(), Ty: bytesT()}
	case "struct":
		// struct("pkg.T", f1, f2, ...): a struct value, fields in declaration order
		ty, srt := x.resolveTypeName(e.pkg, specSrc(n.Args[0]))
		si := x.u.structSort(ty)
		if si == nil || len(n.Args)-1 != len(si.fields) {
			specFail("struct(%s): wrong number of fields", specSrc(n.Args[0]))
		}
		var ts []string
		for _, a := range n.Args[1:] {
			ts = append(ts, e.Eval(a).T)
		}
		return Val{T: "(mk_" + srt + " " + strings.Join(ts, " ") + ")", S: srt, Ty: ty}
	case "stored", "storedBytes":
		// ghost view of the VAA store of a *db.Database, keyed by vaa.VAAID values
		d := e.Eval(n.Args[0])
		id := e.Eval(n.Args[1])
		has, val := x.storeKeys(id.S)
		if n.Fun == "stored" {
			return Val{T: fmt.Sprintf("(select (select %s %s) %s)", x.getHeap(e.st, has), d.T, id.T), S: "Bool"}
		}
		return Val{T: fmt.Sprintf("(select (select %s %s) %s)", x.getHeap(e.st, val), d.T, id.T), S: x.bytesSort(), Ty: bytesT()}
	case "storeUnchanged", "storeUnchangedExcept":
		d := e.Eval(n.Args[0])
		var idS string
		guard := "true"
		q := "k$q" + fmt.Sprint(x.nextQ())
		if n.Fun == "storeUnchangedExcept" {
			id := e.Eval(n.Args[1])
			idS = id.S
			guard = "(not (= " + q + " " + id.T + "))"
		} else {
			_, idS = x.resolveTypeName(x.eng.pkgs["github.com/alephium/wormhole-fork/node/pkg/vaa"], "VAAID")
		}
		has, val := x.storeKeys(idS)
		h1 := fmt.Sprintf("(select (select %s %s) %s)", x.getHeap(e.st, has), d.T, q)
		h0 := fmt.Sprintf("(select (select %s %s) %s)", x.getHeap(e.old, has), d.T, q)
		v1 := fmt.Sprintf("(select (select %s %s) %s)", x.getHeap(e.st, val), d.T, q)
		v0 := fmt.Sprintf("(select (select %s %s) %s)", x.getHeap(e.old, val), d.T, q)
		return Val{T: fmt.Sprintf("(forall ((%s %s)) (=> %s (and (= %s %s) (= %s %s))))", q, idS, guard, h1, h0, v1, v0), S: "Bool"}
	case "domOf":
		// domOf(m): the key set of a map as an array value (for prelude functions over sets)
		m := e.Eval(n.Args[0])
		mt, ok := m.Ty.Underlying().(*types.Map)
		if !ok {
			specFail("domOf of non-map")
		}
		dom, _, ks, _ := x.u.mapKeys(mt)
		return Val{T: "(select " + x.getHeap(e.st, dom) + " " + m.T + ")", S: "(Array " + ks + " Bool)"}
	case "ghostCount":
		// number of calls made so far to a library function that the model counts
		k := "count:" + specSrc(n.Args[0])
		if g, ok := e.st.ghost[k]; ok {
			return g
		}
		specFail("ghostCount: no contract declares counter " + specSrc(n.Args[0]))
		return Val{}
	case "marked":
		gk := "ghost.mark." + specSrc(n.Args[0])
		x.u.regHeap(gk, "(Array Int Bool)")
		r := e.Eval(n.Args[1])
		return Val{T: "(select " + x.getHeap(e.st, gk) + " " + r.T + ")", S: "Bool"}
	case "bigOf":
		r := e.Eval(n.Args[0])
		return Val{T: "(select " + x.getHeap(e.st, x.bigKey()) + " " + r.T + ")", S: "Int"}
	case "iterVisited":
		// badger iteration ghost state: keys already visited by the iterator
		x.badgerKeys()
		it := e.Eval(n.Args[0])
		id := e.Eval(n.Args[1])
		return Val{T: "(select (select " + x.getHeap(e.st, "badger.it.visited") + " " + it.T + ") " + id.T + ")", S: "Bool"}
	case "iterKey":
		x.badgerKeys()
		it := e.Eval(n.Args[0])
		t, ids := x.idSort()
		return Val{T: "(select " + x.getHeap(e.st, "badger.it.cur") + " " + it.T + ")", S: ids, Ty: t}
	case "atomicBool":
		x.u.regHeap("atomic.Bool.v", "(Array Int Bool)")
		r := e.Eval(n.Args[0])
		return Val{T: "(select " + x.getHeap(e.st, "atomic.Bool.v") + " " + r.T + ")", S: "Bool"}
	case "hasFormat":
		// hasFormat(s, "<format>", a1, ..., an): the string was built by fmt.Sprintf with exactly
		// this format from exactly these values, and the format determines its arguments
		// (verbs are %d / fixed-width hex %s, every two of them separated by a literal that
		// starts with a character that is neither a digit nor a hex letter)
		if len(n.Args) < 2 {
			specFail("hasFormat(s, format, args...)")
		}
		sv := e.Eval(n.Args[0])
		fl, ok := n.Args[1].(*SLit)
		if !ok || fl.Kind != "string" {
			specFail("hasFormat: the format must be a string literal")
		}
		f, ok := x.fmtOf[sv.T]
		if !ok {
			// nothing is known about how the string was built: neither true nor false
			return Val{T: x.u.fresh("fmt_unknown", "Bool"), S: "Bool"}
		}
		var conj []string
		ai := 2
		format := fl.Val
		si := 0
		lit := ""
		bad := false
		prevVerb := false
		flush := func() {
			if lit == "" {
				return
			}
			if si >= len(f.segs) || f.segs[si].kind != "lit" || f.segs[si].lit != lit {
				bad = true
			}
			c0 := lit[0]
			if prevVerb && (isDigit(c0) || (c0 >= 'a' && c0 <= 'f') || (c0 >= 'A' && c0 <= 'F')) {
				bad = true
			}
			si++
			lit = ""
			prevVerb = false
		}
		for i := 0; i < len(format) && !bad; i++ {
			ch := format[i]
			if ch != '%' {
				lit += string(ch)
				continue
			}
			i++
			if i >= len(format) {
				bad = true
				break
			}
			if format[i] == '%' {
				lit += "%"
				continue
			}
			flush()
			if prevVerb || ai >= len(n.Args) || si >= len(f.segs) {
				bad = true
				break
			}
			a := e.Eval(n.Args[ai])
			ai++
			seg := f.segs[si]
			switch {
			case format[i] == 'd' && seg.kind == "dec":
				conj = append(conj, "(= "+seg.arg+" "+a.T+")")
			case format[i] == 's' && seg.kind == "hex":
				conj = append(conj, "(= "+seg.arg+" "+a.T+")")
			default:
				bad = true
			}
			si++
			prevVerb = true
		}
		flush()
		if bad || si != len(f.segs) || ai != len(n.Args) {
			return Val{T: "false", S: "Bool"}
		}
		return Val{T: "(and true " + strings.Join(conj, " ") + ")", S: "Bool"}
	case "errstr":
		x.u.declSort("GoString")
		x.need("errstr")
		r := e.Eval(n.Args[0])
		return Val{T: "(errstr " + r.T + ")", S: "GoString", Ty: types.Typ[types.String]}
	case "nsent":
		c := e.Eval(n.Args[0])
		nk, _, _ := x.chanKeys(chanElem(c.Ty))
		return Val{T: "(select " + x.getHeap(e.st, nk) + " " + c.T + ")", S: "Int"}
	case "lastsent":
		c := e.Eval(n.Args[0])
		el := chanElem(c.Ty)
		if el == nil {
			specFail("lastsent of non-chan")
		}
		_, lk, es := x.chanKeys(el)
		return Val{T: "(select " + x.getHeap(e.st, lk) + " " + c.T + ")", S: es, Ty: el}
	}
	if m := reFixedFn.FindStringSubmatch(n.Fun); m != nil {
		var nn int64
		fmt.Sscan(m[2], &nn)
		fs := x.u.fixedSort(nn)
		vs := args()
		var ts []string
		for _, v := range vs {
			ts = append(ts, v.T)
		}
		t := "(" + n.Fun + " " + strings.Join(ts, " ") + ")"
		switch m[1] {
		case "at":
			return Val{T: t, S: "Int"}
		case "bytes":
			return Val{T: t, S: x.bytesSort(), Ty: bytesT()}
		case "from", "upd":
			return Val{T: t, S: fs}
		}
	}
	if n.Fun == "sub" {
		vs := args()
		if len(vs) != 3 || !strings.HasPrefix(vs[0].S, "Slice_") {
			specFail("sub(b, lo, hi) needs a slice")
		}
		id := sortId(sliceElemSortOf(vs[0].S))
		return Val{T: fmt.Sprintf("(sub_%s %s %s %s)", id, vs[0].T, vs[1].T, vs[2].T), S: vs[0].S, Ty: vs[0].Ty}
	}
	// predicate / pure macro
	predName := n.Fun
	if j := strings.Index(predName, "."); j > 0 {
		if ip := x.importedPkg(e.pkg, predName[:j]); ip != nil {
			if _, ok := x.eng.preds[ip.PkgPath+"::"+predName[j+1:]]; ok {
				predName = ip.Name + "." + predName[j+1:]
			}
		}
	}
	if p := x.eng.findPred(e.pkg, predName); p != nil {
		if e.depth > 20 {
			specFail("predicate recursion too deep in %s", n.Fun)
		}
		vs := args()
		if len(vs) != len(p.Params) {
			specFail("pred %s: arity", n.Fun)
		}
		c := e.child()
		c.depth++
		c.pkg = x.eng.pkgs[p.Pkg]
		c.names = map[string]Val{}
		for i, prm := range p.Params {
			c.names[prm.Name] = vs[i]
		}
		// bound vars remain tracked
		return c.Eval(p.Body)
	}
	// prelude function
	if sig, ok := x.eng.preludeFuns[n.Fun]; ok {
		vs := args()
		if len(vs) != len(sig.args) {
			specFail("prelude fun %s: arity %d vs %d", n.Fun, len(vs), len(sig.args))
		}
		var ts []string
		for i, v := range vs {
			if v.S != sig.args[i] {
				specFail("prelude fun %s: arg %d sort %s, want %s", n.Fun, i, v.S, sig.args[i])
			}
			ts = append(ts, v.T)
		}
		x.need(n.Fun)
		if len(ts) == 0 {
			return Val{T: n.Fun, S: sig.res}
		}
		return Val{T: "(" + n.Fun + " " + strings.Join(ts, " ") + ")", S: sig.res}
	}
	x.need(n.Fun)
	specFail("unknown spec function %s", n.Fun)
	return Val{}
}

func specSrc(e SExpr) string {
	switch n := e.(type) {
	case *SLit:
		return n.Val
	case *SIdent:
		return n.Name
	case *SSelector:
		return specSrc(n.X) + "." + n.Sel
	}
	return "?"
}

// ---------- shared helpers on Exec used by both spec and code evaluation ----------

func (x *Exec) nextQ() int { x.qn++; return x.qn }

func (x *Exec) strLit(s string) Val {
	x.u.declSort("GoString")
	if n, ok := x.u.strLits[s]; ok {
		return Val{T: n, S: "GoString", Ty: types.Typ[types.String]}
	}
	n := fmt.Sprintf("str!%d", len(x.u.strLits))
	x.u.decls = append(x.u.decls, fmt.Sprintf("(declare-const %s GoString)", n))
	x.u.fact(fmt.Sprintf("(= (strlen %s) %d)", n, len(s)))
	var others []string
	for _, on := range x.u.strLits {
		others = append(others, on)
	}
	sort.Strings(others)
	for _, on := range others {
		x.u.fact("(not (= " + n + " " + on + "))")
	}
	x.u.strLits[s] = n
	return Val{T: n, S: "GoString", Ty: types.Typ[types.String]}
}

func (x *Exec) importedPkg(pkg *packages.Package, name string) *packages.Package {
	// effective local names over all files of the package; deterministic choice
	cands := map[string]bool{}
	for _, f := range pkg.Syntax {
		for _, im := range f.Imports {
			path := strings.Trim(im.Path.Value, "\"")
			p := x.eng.pkgs[path]
			if im.Name != nil {
				if im.Name.Name == name {
					cands[path] = true
				}
			} else if p != nil && p.Name == name {
				cands[path] = true
			}
		}
	}
	if len(cands) == 0 {
		for path, p := range x.eng.pkgs {
			if p.Name == name {
				cands[path] = true
			}
		}
	}
	var paths []string
	for p := range cands {
		paths = append(paths, p)
	}
	sort.Strings(paths)
	for _, p := range paths {
		if strings.HasPrefix(p, "github.com/alephium/wormhole-fork") {
			return x.eng.pkgs[p]
		}
	}
	if len(paths) > 0 {
		return x.eng.pkgs[paths[0]]
	}
	return nil
}

// pkgName resolves a package-level const/var.
func (x *Exec) pkgName(pkg *packages.Package, st *State, name string) (Val, bool) {
	if pkg == nil || pkg.Types == nil {
		return Val{}, false
	}
	obj := pkg.Types.Scope().Lookup(name)
	if obj == nil {
		return Val{}, false
	}
	switch o := obj.(type) {
	case *types.Const:
		return x.constVal(o.Val(), o.Type()), true
	case *types.Var:
		return x.globalVar(o), true
	}
	return Val{}, false
}

func (x *Exec) constVal(c constant.Value, t types.Type) Val {
	switch c.Kind() {
	case constant.Bool:
		if constant.BoolVal(c) {
			return Val{T: "true", S: "Bool", Ty: t}
		}
		return Val{T: "false", S: "Bool", Ty: t}
	case constant.Int:
		return Val{T: intLit(c.ExactString()), S: "Int", Ty: t}
	case constant.String:
		v := x.strLit(constant.StringVal(c))
		v.Ty = t
		return v
	case constant.Float:
		if i := constant.ToInt(c); i.Kind() == constant.Int {
			return Val{T: intLit(i.ExactString()), S: "Int", Ty: t}
		}
	}
	return x.havocVal("const", t)
}

func (x *Exec) globalVar(o *types.Var) Val {
	if v, ok := x.globals[o]; ok {
		return v
	}
	s := x.u.sortOf(o.Type())
	n := "G_" + sanitize(o.Pkg().Name()+"."+o.Name())
	x.u.decls = append(x.u.decls, fmt.Sprintf("(declare-const %s %s)", n, s))
	v := Val{T: n, S: s, Ty: o.Type()}
	if tf := x.u.typeFact(v); tf != "" {
		x.u.fact(tf)
	}
	// package-level error sentinels are non-nil and pairwise distinct
	if types.Identical(o.Type(), types.Universe.Lookup("error").Type()) {
		x.u.fact("(> " + n + " 0)")
		x.u.fact("(< " + n + " " + x.next0 + ")") // allocated before the function was entered
		var sentinels []string
		for oo, ov := range x.globals {
			if types.Identical(oo.Type(), o.Type()) {
				sentinels = append(sentinels, ov.T)
			}
		}
		sort.Strings(sentinels)
		for _, t := range sentinels {
			x.u.fact("(not (= " + n + " " + t + "))")
		}
	}
	x.globals[o] = v
	x.globalInit(o, v)
	return v
}

// globalInit gives a package-level variable the value of its initialiser when that is a
// []byte("literal") conversion or a []byte{...} literal of constants and no function of the
// package assigns the variable (checked syntactically; otherwise nothing is assumed).
func (x *Exec) globalInit(o *types.Var, v Val) {
	pkg := x.eng.pkgs[o.Pkg().Path()]
	if pkg == nil || pkg.TypesInfo == nil || v.S != x.bytesSort() {
		return
	}
	var init ast.Expr
	assigned := false
	for _, f := range pkg.Syntax {
		ast.Inspect(f, func(n ast.Node) bool {
			switch s := n.(type) {
			case *ast.ValueSpec:
				for i, nm := range s.Names {
					if pkg.TypesInfo.Defs[nm] == o && i < len(s.Values) {
						init = s.Values[i]
					}
				}
			case *ast.AssignStmt:
				for _, l := range s.Lhs {
					if id, ok := l.(*ast.Ident); ok && pkg.TypesInfo.Uses[id] == o {
						assigned = true
					}
					if ix, ok := l.(*ast.IndexExpr); ok {
						if id, ok := ix.X.(*ast.Ident); ok && pkg.TypesInfo.Uses[id] == o {
							assigned = true
						}
					}
				}
			}
			return true
		})
	}
	if init == nil || assigned {
		return
	}
	var content []byte
	switch e := init.(type) {
	case *ast.CallExpr:
		if len(e.Args) == 1 {
			if tv, ok := pkg.TypesInfo.Types[e.Args[0]]; ok && tv.Value != nil && tv.Value.Kind() == constant.String {
				content = []byte(constant.StringVal(tv.Value))
			}
		}
	case *ast.CompositeLit:
		for _, el := range e.Elts {
			tv, ok := pkg.TypesInfo.Types[el]
			if !ok || tv.Value == nil {
				return
			}
			n, _ := constant.Int64Val(constant.ToInt(tv.Value))
			content = append(content, byte(n))
		}
	default:
		return
	}
	if content == nil {
		return
	}
	x.u.fact(fmt.Sprintf("(and (= (slen_Int %s) %d) (not (snil_Int %s)))", v.T, len(content), v.T))
	for i, b := range content {
		x.u.fact(fmt.Sprintf("(= (select (sarr_Int %s) %d) %d)", v.T, i, b))
	}
	x.u.notes = append(x.u.notes, "package variable "+o.Name()+" taken at its initial value (never assigned in its package)")
}

func (x *Exec) havocVal(base string, t types.Type) Val {
	s := x.u.sortOf(t)
	n := x.u.fresh(base, s)
	v := Val{T: n, S: s, Ty: t}
	if tf := x.u.typeFact(v); tf != "" {
		x.u.fact(tf)
	}
	return v
}

// resolveTypeName resolves a Go type expression (or a spec sort) written in a contract.
func (x *Exec) resolveTypeName(pkg *packages.Package, src string) (types.Type, string) {
	switch src {
	case "Int":
		return nil, "Int"
	case "Bool":
		return nil, "Bool"
	case "Bytes":
		t := types.NewSlice(types.Typ[types.Uint8])
		return t, x.u.sortOf(t)
	}
	ex, err := parser.ParseExpr(src)
	if err != nil {
		specFail("bad type %q", src)
	}
	t := x.typeFromExpr(pkg, ex)
	return t, x.u.sortOf(t)
}

func (x *Exec) typeFromExpr(pkg *packages.Package, e ast.Expr) types.Type {
	switch t := e.(type) {
	case *ast.Ident:
		if o := types.Universe.Lookup(t.Name); o != nil {
			if tn, ok := o.(*types.TypeName); ok {
				return tn.Type()
			}
		}
		if o := pkg.Types.Scope().Lookup(t.Name); o != nil {
			if tn, ok := o.(*types.TypeName); ok {
				return tn.Type()
			}
		}
		specFail("unknown type %s in %s", t.Name, pkg.PkgPath)
	case *ast.StarExpr:
		return types.NewPointer(x.typeFromExpr(pkg, t.X))
	case *ast.ParenExpr:
		return x.typeFromExpr(pkg, t.X)
	case *ast.SelectorExpr:
		id, ok := t.X.(*ast.Ident)
		if !ok {
			specFail("bad qualified type")
		}
		p := x.importedPkg(pkg, id.Name)
		if p == nil {
			specFail("unknown package %s", id.Name)
		}
		if o := p.Types.Scope().Lookup(t.Sel.Name); o != nil {
			if tn, ok := o.(*types.TypeName); ok {
				return tn.Type()
			}
		}
		specFail("unknown type %s.%s", id.Name, t.Sel.Name)
	case *ast.ArrayType:
		el := x.typeFromExpr(pkg, t.Elt)
		if t.Len == nil {
			return types.NewSlice(el)
		}
		if bl, ok := t.Len.(*ast.BasicLit); ok {
			var n int64
			fmt.Sscan(bl.Value, &n)
			return types.NewArray(el, n)
		}
	case *ast.MapType:
		return types.NewMap(x.typeFromExpr(pkg, t.Key), x.typeFromExpr(pkg, t.Value))
	case *ast.ChanType:
		return types.NewChan(types.SendRecv, x.typeFromExpr(pkg, t.Value))
	case *ast.InterfaceType:
		return types.NewInterfaceType(nil, nil)
	case *ast.Ellipsis:
		return types.NewSlice(x.typeFromExpr(pkg, t.Elt))
	case *ast.FuncType:
		return types.NewSignatureType(nil, nil, nil, nil, nil, false)
	}
	specFail("unsupported type expression %T", e)
	return nil
}

// placeKeys maps a place written in a modifies/unchanged clause to heap keys.
//   T.f            field f of struct type T (package-local or pkg.T.f)
//   map[K]V        contents of all maps of that type
//   chan           channel ghost state
func (x *Exec) placeKeys(pkg *packages.Package, place string) []string {
	place = strings.TrimSpace(place)
	place = strings.TrimPrefix(place, "fresh ")
	if strings.HasPrefix(place, "lib:") {
		k := strings.TrimPrefix(place, "lib:")
		switch k {
		case "bytes.Buffer.b":
			x.bufKey()
		case "bytes.Reader.s", "bytes.Reader.i":
			x.readerKeys()
		case "atomic.Bool.v":
			x.u.regHeap("atomic.Bool.v", "(Array Int Bool)")
		case "big.Int.v":
			x.u.regHeap("big.Int.v", "(Array Int Int)")
		case "db.store":
			_, idS := x.resolveTypeName(x.eng.pkgs["github.com/alephium/wormhole-fork/node/pkg/vaa"], "VAAID")
			has, val := x.storeKeys(idS)
			return []string{has, val}
		default:
			specFail("unknown library place %s", k)
		}
		return []string{k}
	}
	if strings.HasPrefix(place, "chan:") {
		// channels carrying the given element type
		et, _ := x.resolveTypeName(pkg, strings.TrimPrefix(place, "chan:"))
		nk, lk, _ := x.chanKeys(et)
		return []string{nk, lk}
	}
	if place == "chan" {
		var ks []string
		for k := range x.u.heapKeys {
			if strings.HasPrefix(k, "chan.") {
				ks = append(ks, k)
			}
		}
		sort.Strings(ks)
		return ks
	}
	if strings.HasPrefix(place, "map[") {
		t, _ := x.resolveTypeName(pkg, place)
		dom, val, _, _ := x.u.mapKeys(t.(*types.Map))
		return []string{dom, val}
	}
	if strings.HasPrefix(place, "cell:") {
		_, s := x.resolveTypeName(pkg, strings.TrimPrefix(place, "cell:"))
		k := "Cell_" + sortId(s)
		x.u.regHeap(k, "(Array Int "+s+")")
		return []string{k}
	}
	j := strings.LastIndex(place, ".")
	if j < 0 {
		specFail("bad place %q", place)
	}
	tn, fn := place[:j], place[j+1:]
	t, _ := x.resolveTypeName(pkg, tn)
	st, ok := t.Underlying().(*types.Struct)
	if !ok {
		specFail("place %q: not a struct", place)
	}
	if fn == "*" {
		var ks []string
		for i := 0; i < st.NumFields(); i++ {
			ks = append(ks, x.u.heapKeyForField(st.Field(i), t))
		}
		return ks
	}
	for i := 0; i < st.NumFields(); i++ {
		if st.Field(i).Name() == fn {
			return []string{x.u.heapKeyForField(st.Field(i), t)}
		}
	}
	specFail("place %q: no such field", place)
	return nil
}

func (x *Exec) storeKeys(idSort string) (string, string) {
	x.u.regHeap("db.store.has", "(Array Int (Array "+idSort+" Bool))")
	x.u.regHeap("db.store.val", "(Array Int (Array "+idSort+" "+x.bytesSort()+"))")
	return "db.store.has", "db.store.val"
}
