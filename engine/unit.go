package main

// Verification unit: SMT declarations, facts, obligations, sort registry.

import (
	"os"
	"strconv"
	"fmt"
	"go/token"
	"go/types"
	"sort"
	"strings"
)

var fsetSpec = token.NewFileSet()

type Val struct {
	T  string     // SMT term
	S  string     // SMT sort
	Ty types.Type // Go type when known
}

type Obligation struct {
	Name    string
	Kind    string // ensures requires inv safe lemma vacuity ...
	Unit    string
	Clause  string // source text of the clause
	Where   string // file:line of code point
	nDecl   int
	nFact   int
	PC      string
	Goal    string
	ExpectSat bool // vacuity guards: must be sat
	Extra   []string // extra asserts (for vacuity)
	Result  SolveResult
	Script  string
	Inputs  []ModelVar // terms to read back from a model
	unit    *Unit
}

type ModelVar struct {
	Name string // logical input name, e.g. "v.Payload"
	Term string
	Sort string
	Kind string // int bool bytes aN string ref
	Ty   types.Type
}

type Unit struct {
	eng      *Engine
	Name     string
	sortDecl []string          // datatype / sort declarations in order
	sortSeen map[string]bool
	decls    []string
	facts    []string
	obls     []*Obligation
	nfresh   int
	heapKeys map[string]string // heap key -> array sort
	heapOrder []string
	strLits  map[string]string
	havocSites []string
	notes    []string
	inputs   []ModelVar
	fieldKey map[*types.Var]string
	structs  map[string]*structInfo
	preludeBlocks []string
	exec     *Exec
	contract *Contract
	nameCount map[string]int
	envAssumes []string
}

// GOVC_NAME_SEED shifts the numbering of fresh SMT symbols: solvers are sensitive to symbol
// names, so an obligation that only discharges for one numbering is unstable (stress test).
func nameSeed() int {
	n, _ := strconv.Atoi(os.Getenv("GOVC_NAME_SEED"))
	return n * 1009
}

func newUnit(eng *Engine, name string) *Unit {
	return &Unit{nfresh: nameSeed(), eng: eng, Name: name, sortSeen: map[string]bool{}, heapKeys: map[string]string{}, strLits: map[string]string{}, fieldKey: map[*types.Var]string{}, structs: map[string]*structInfo{}}
}

func (u *Unit) fresh(base, sort string) string {
	u.nfresh++
	base = sanitize(base)
	n := fmt.Sprintf("%s!%d", base, u.nfresh)
	u.decls = append(u.decls, fmt.Sprintf("(declare-const %s %s)", n, sort))
	return n
}

func (u *Unit) fact(f string) {
	u.facts = append(u.facts, "(assert "+f+")")
}

func (u *Unit) gfact(pc, f string) {
	if pc == "true" {
		u.fact(f)
	} else {
		u.fact("(=> " + pc + " " + f + ")")
	}
}

func sanitize(s string) string {
	var b strings.Builder
	for _, r := range s {
		if (r >= 'a' && r <= 'z') || (r >= 'A' && r <= 'Z') || (r >= '0' && r <= '9') || r == '_' || r == '.' || r == '$' {
			b.WriteRune(r)
		} else {
			b.WriteByte('_')
		}
	}
	if b.Len() == 0 {
		return "t"
	}
	return b.String()
}

// ---------- sorts ----------

func sortId(s string) string {
	r := strings.NewReplacer("(", "", ")", "", " ", "_")
	return r.Replace(s)
}

func (u *Unit) sliceSort(elem string) string {
	name := "Slice_" + sortId(elem)
	if !u.sortSeen[name] {
		u.sortSeen[name] = true
		id := sortId(elem)
		u.sortDecl = append(u.sortDecl, fmt.Sprintf("(declare-datatypes ((%s 0)) (((mk_%s (sarr_%s (Array Int %s)) (slen_%s Int) (snil_%s Bool)))))", name, name, id, elem, id, id),
			// sub_E(b, lo, hi) = b[lo:hi] as a value (definitional)
			fmt.Sprintf("(declare-fun sub_%s (%s Int Int) %s)", id, name, name),
			fmt.Sprintf("(assert (forall ((b %s) (l Int) (h Int)) (! (and (= (slen_%s (sub_%s b l h)) (- h l)) (not (snil_%s (sub_%s b l h)))) :pattern ((sub_%s b l h)))))", name, id, id, id, id, id),
			fmt.Sprintf("(assert (forall ((b %s) (l Int) (h Int) (j Int)) (! (= (select (sarr_%s (sub_%s b l h)) j) (select (sarr_%s b) (+ j l))) :pattern ((select (sarr_%s (sub_%s b l h)) j)))))", name, id, id, id, id, id))
	}
	return name
}

func sliceElemSort(s string) string { // inverse for simple sorts only via registry
	return strings.TrimPrefix(s, "Slice_")
}

func (u *Unit) fixedSort(n int64) string {
	name := fmt.Sprintf("A%d", n)
	if !u.sortSeen[name] {
		u.sortSeen[name] = true
		bs := u.sliceSort("Int")
		d := []string{
			fmt.Sprintf("(declare-sort %s 0)", name),
			fmt.Sprintf("(declare-fun at%d (%s Int) Int)", n, name),
			fmt.Sprintf("(declare-fun upd%d (%s Int Int) %s)", n, name, name),
			fmt.Sprintf("(assert (forall ((a %s) (i Int) (v Int) (j Int)) (! (= (at%d (upd%d a i v) j) (ite (= i j) v (at%d a j))) :pattern ((at%d (upd%d a i v) j)))))", name, n, n, n, n, n),
			fmt.Sprintf("(declare-fun diff%d (%s %s) Int)", n, name, name),
			// eqN(a,b) is a = b, written as a predicate so that extensionality has a trigger
			fmt.Sprintf("(declare-fun eq%d (%s %s) Bool)", n, name, name),
			fmt.Sprintf("(assert (forall ((a %s) (b %s)) (! (= (eq%d a b) (= a b)) :pattern ((eq%d a b)))))", name, name, n, n),
			fmt.Sprintf("(assert (forall ((a %s) (b %s)) (! (or (eq%d a b) (and (<= 0 (diff%d a b)) (< (diff%d a b) %d) (not (= (at%d a (diff%d a b)) (at%d b (diff%d a b)))))) :pattern ((eq%d a b)))))", name, name, n, n, n, n, n, n, n, n, n),
			fmt.Sprintf("(declare-fun bytes%d (%s) %s)", n, name, bs),
			fmt.Sprintf("(assert (forall ((a %s)) (! (and (= (slen_Int (bytes%d a)) %d) (not (snil_Int (bytes%d a)))) :pattern ((bytes%d a)))))", name, n, n, n, n),
			fmt.Sprintf("(assert (forall ((a %s) (i Int)) (! (=> (and (<= 0 i) (< i %d)) (= (select (sarr_Int (bytes%d a)) i) (at%d a i))) :pattern ((select (sarr_Int (bytes%d a)) i)))))", name, n, n, n, n),
			fmt.Sprintf("(declare-fun from%d (%s) %s)", n, bs, name),
			fmt.Sprintf("(assert (forall ((b %s) (i Int)) (! (=> (and (<= 0 i) (< i %d)) (= (at%d (from%d b) i) (select (sarr_Int b) i))) :pattern ((at%d (from%d b) i)))))", bs, n, n, n, n, n),
			fmt.Sprintf("(assert (forall ((a %s)) (! (= (from%d (bytes%d a)) a) :pattern ((bytes%d a)))))", name, n, n, n),
			fmt.Sprintf("(declare-const zero%d %s)", n, name),
			fmt.Sprintf("(assert (forall ((i Int)) (! (= (at%d zero%d i) 0) :pattern ((at%d zero%d i)))))", n, n, n, n),
		}
		u.sortDecl = append(u.sortDecl, d...)
	}
	return name
}

func isFixedSort(s string) (int64, bool) {
	if len(s) > 1 && s[0] == 'A' {
		var n int64
		for _, r := range s[1:] {
			if r < '0' || r > '9' {
				return 0, false
			}
			n = n*10 + int64(r-'0')
		}
		return n, true
	}
	return 0, false
}

// extInstance returns the skolemised extensionality instance for a = b of sort A<n>.
func extInstance(n int64, a, b string) string {
	d := fmt.Sprintf("(diff%d %s %s)", n, a, b)
	return fmt.Sprintf("(or (= %s %s) (and (<= 0 %s) (< %s %d) (not (= (at%d %s %s) (at%d %s %s)))))", a, b, d, d, n, n, a, d, n, b, d)
}

type structInfo struct {
	sort   string
	fields []*types.Var
	fsorts []string
}

func (u *Unit) structSort(t types.Type) *structInfo {
	st, ok := t.Underlying().(*types.Struct)
	if !ok {
		return nil
	}
	name := "S_" + sanitize(types.TypeString(t, func(p *types.Package) string { return p.Name() }))
	if len(name) > 60 {
		name = fmt.Sprintf("%s_%d", name[:50], len(name))
	}
	si := u.structs[name]
	if si != nil {
		return si
	}
	si = &structInfo{sort: name}
	var parts []string
	for i := 0; i < st.NumFields(); i++ {
		f := st.Field(i)
		fs := u.sortOf(f.Type())
		si.fields = append(si.fields, f)
		si.fsorts = append(si.fsorts, fs)
		parts = append(parts, fmt.Sprintf("(%s.%s %s)", name, sanitize(f.Name()), fs))
	}
	if len(parts) == 0 {
		parts = append(parts, fmt.Sprintf("(%s._dummy Int)", name))
	}
	u.sortSeen[name] = true
	u.sortDecl = append(u.sortDecl, fmt.Sprintf("(declare-datatypes ((%s 0)) (((mk_%s %s))))", name, name, strings.Join(parts, " ")))
	u.structs[name] = si
	return si
}

func isByte(t types.Type) bool {
	b, ok := t.Underlying().(*types.Basic)
	return ok && b.Kind() == types.Uint8
}

func (u *Unit) sortOf(t types.Type) string {
	if t == nil {
		return "Int"
	}
	if n, ok := t.(*types.Named); ok {
		if n.Obj().Pkg() != nil {
			q := n.Obj().Pkg().Path() + "." + n.Obj().Name()
			switch q {
			case "time.Time":
				u.declSort("Time")
				return "Time"
			}
		}
	}
	if a, ok := t.(*types.Alias); ok {
		return u.sortOf(types.Unalias(a))
	}
	switch tt := t.Underlying().(type) {
	case *types.Basic:
		switch {
		case tt.Info()&types.IsBoolean != 0:
			return "Bool"
		case tt.Info()&types.IsInteger != 0:
			return "Int"
		case tt.Info()&types.IsString != 0:
			u.declSort("GoString")
			return "GoString"
		case tt.Info()&types.IsFloat != 0:
			return "Real"
		case tt.Kind() == types.UntypedNil:
			return "Int"
		}
		return "Int"
	case *types.Pointer, *types.Map, *types.Chan, *types.Signature, *types.Interface:
		return "Int"
	case *types.Slice:
		return u.sliceSort(u.sortOf(tt.Elem()))
	case *types.Array:
		if isByte(tt.Elem()) {
			return u.fixedSort(tt.Len())
		}
		return "(Array Int " + u.sortOf(tt.Elem()) + ")"
	case *types.Struct:
		return u.structSort(t).sort
	case *types.Tuple:
		return "Int"
	}
	return "Int"
}

func (u *Unit) declSort(name string) {
	if !u.sortSeen[name] {
		u.sortSeen[name] = true
		switch name {
		case "GoString":
			u.sortDecl = append(u.sortDecl, "(declare-sort GoString 0)", "(declare-fun strlen (GoString) Int)",
				"(assert (forall ((s GoString)) (! (>= (strlen s) 0) :pattern ((strlen s)))))")
		case "Time":
			u.sortDecl = append(u.sortDecl, "(declare-sort Time 0)",
				"(declare-fun time.unix (Time) Int)", "(declare-fun time.nsec (Time) Int)", "(declare-fun time.mk (Int Int) Time)",
				"(assert (forall ((s Int) (n Int)) (! (=> (and (<= 0 n) (< n 1000000000)) (and (= (time.unix (time.mk s n)) s) (= (time.nsec (time.mk s n)) n))) :pattern ((time.mk s n)))))",
				"(assert (forall ((t Time)) (! (and (<= 0 (time.nsec t)) (< (time.nsec t) 1000000000)) :pattern ((time.nsec t)))))",
				"(assert (forall ((t Time)) (! (= (time.mk (time.unix t) (time.nsec t)) t) :pattern ((time.unix t)))))",
				"(define-fun time.ns ((t Time)) Int (+ (* 1000000000 (time.unix t)) (time.nsec t)))")
		}
	}
}

// ---------- integer ranges ----------

func intRange(t types.Type) (lo, hi string, ok bool) {
	b, isb := t.Underlying().(*types.Basic)
	if !isb || b.Info()&types.IsInteger == 0 {
		return "", "", false
	}
	switch b.Kind() {
	case types.Uint8:
		return "0", "255", true
	case types.Uint16:
		return "0", "65535", true
	case types.Uint32:
		return "0", "4294967295", true
	case types.Uint64, types.Uint, types.Uintptr:
		return "0", "18446744073709551615", true
	case types.Int8:
		return "(- 128)", "127", true
	case types.Int16:
		return "(- 32768)", "32767", true
	case types.Int32:
		return "(- 2147483648)", "2147483647", true
	case types.Int64, types.Int:
		return "(- 9223372036854775808)", "9223372036854775807", true
	}
	return "", "", false // untyped
}

func intBits(t types.Type) (bits int, signed bool, ok bool) {
	b, isb := t.Underlying().(*types.Basic)
	if !isb || b.Info()&types.IsInteger == 0 {
		return 0, false, false
	}
	switch b.Kind() {
	case types.Uint8:
		return 8, false, true
	case types.Uint16:
		return 16, false, true
	case types.Uint32:
		return 32, false, true
	case types.Uint64, types.Uint, types.Uintptr:
		return 64, false, true
	case types.Int8:
		return 8, true, true
	case types.Int16:
		return 16, true, true
	case types.Int32:
		return 32, true, true
	case types.Int64, types.Int:
		return 64, true, true
	}
	return 0, false, false
}

var pow2 = map[int]string{8: "256", 16: "65536", 32: "4294967296", 64: "18446744073709551616"}
var pow2h = map[int]string{8: "128", 16: "32768", 32: "2147483648", 64: "9223372036854775808"}

// wrapTo wraps a mathematical integer term to the Go integer type t.
func wrapTo(term string, t types.Type) string {
	bits, signed, ok := intBits(t)
	if !ok {
		return term
	}
	if !signed {
		return fmt.Sprintf("(mod %s %s)", term, pow2[bits])
	}
	return fmt.Sprintf("(- (mod (+ %s %s) %s) %s)", term, pow2h[bits], pow2[bits], pow2h[bits])
}

// typeFact returns a formula constraining v to the value space of its Go type ("" if none).
func (u *Unit) typeFact(v Val) string {
	if v.Ty == nil {
		return ""
	}
	if lo, hi, ok := intRange(v.Ty); ok {
		return fmt.Sprintf("(and (<= %s %s) (<= %s %s))", lo, v.T, v.T, hi)
	}
	switch v.Ty.Underlying().(type) {
	case *types.Slice:
		id := sortId(sliceElemSortOf(v.S))
		// lengths are bounded by the address space (Go caps allocations at 2^48 bytes on amd64)
		return fmt.Sprintf("(and (>= (slen_%s %s) 0) (<= (slen_%s %s) 281474976710656) (=> (snil_%s %s) (= (slen_%s %s) 0)))", id, v.T, id, v.T, id, v.T, id, v.T)
	case *types.Pointer, *types.Map, *types.Chan, *types.Interface, *types.Signature:
		return fmt.Sprintf("(>= %s 0)", v.T)
	}
	return ""
}

func sliceElemSortOf(s string) string { return strings.TrimPrefix(s, "Slice_") }

// ---------- heap ----------

func (u *Unit) heapKeyForField(f *types.Var, owner types.Type) string {
	if k, ok := u.fieldKey[f]; ok {
		return k
	}
	on := "anon"
	if owner != nil {
		on = types.TypeString(owner, func(p *types.Package) string { return p.Name() })
		on = strings.TrimPrefix(on, "*")
	}
	k := "H_" + sanitize(on) + "." + sanitize(f.Name())
	u.fieldKey[f] = k
	u.regHeap(k, "(Array Int "+u.sortOf(f.Type())+")")
	return k
}

func (u *Unit) regHeap(key, sort string) {
	if _, ok := u.heapKeys[key]; !ok {
		u.heapKeys[key] = sort
		u.heapOrder = append(u.heapOrder, key)
	}
}

func (u *Unit) mapKeys(m *types.Map) (dom, val, ks, vs string) {
	ks = u.sortOf(m.Key())
	vs = u.sortOf(m.Elem())
	// one pair of heap arrays per Go map type (not per sort pair), so that a loop writing
	// maps of one type does not lose what is known about maps of another
	id := sanitize(types.TypeString(m, func(p *types.Package) string { return p.Name() }))
	dom = "M_" + id + ".dom"
	val = "M_" + id + ".val"
	u.regHeap(dom, "(Array Int (Array "+ks+" Bool))")
	u.regHeap(val, "(Array Int (Array "+ks+" "+vs+"))")
	return
}

// ---------- obligations ----------

func (u *Unit) oblige(name, kind, clause, where, pc, goal string) *Obligation {
	if u.nameCount == nil {
		u.nameCount = map[string]int{}
	}
	u.nameCount[name]++
	if c := u.nameCount[name]; c > 1 && kind != "vacuity" {
		name = fmt.Sprintf("%s@%d", name, c)
	}
	o := &Obligation{Name: u.Name + ":" + name, Kind: kind, Unit: u.Name, Clause: clause, Where: where,
		nDecl: len(u.decls), nFact: len(u.facts), PC: pc, Goal: goal, unit: u}
	// merge duplicates by name: conjunction is handled by keeping separate sub-obligations with #k suffix internally
	u.obls = append(u.obls, o)
	return o
}

func (u *Unit) script(o *Obligation) string {
	var b strings.Builder
	b.WriteString("(set-option :produce-models true)\n(set-logic ALL)\n")
	for _, d := range u.sortDecl {
		b.WriteString(d)
		b.WriteByte('\n')
	}
	b.WriteString(u.eng.preludeFor(u))
	// heap arrays initial incarnations are declared in decls
	for _, d := range u.decls[:o.nDecl] {
		b.WriteString(d)
		b.WriteByte('\n')
	}
	for _, f := range u.facts[:o.nFact] {
		b.WriteString(f)
		b.WriteByte('\n')
	}
	for _, f := range o.Extra {
		b.WriteString("(assert " + f + ")\n")
	}
	b.WriteString("(assert " + o.PC + ")\n")
	if !o.ExpectSat {
		b.WriteString("(assert (not " + o.Goal + "))\n")
	}
	b.WriteString("(check-sat)\n")
	return b.String()
}

func (u *Unit) modelQuery(o *Obligation, terms []string) string {
	s := u.script(o)
	if len(terms) == 0 {
		return s
	}
	return s + "(get-value (" + strings.Join(terms, " ") + "))\n"
}

func sortedKeys(m map[string]string) []string {
	var ks []string
	for k := range m {
		ks = append(ks, k)
	}
	sort.Strings(ks)
	return ks
}
