package main

// More assumed library contracts: math/big, hex decode, base58, binary.BigEndian readers,
// bytes helpers.

import (
	"fmt"
	"go/ast"
	"go/types"
	"sort"
	"strings"
)

func (x *Exec) bigKey() string {
	x.u.regHeap("big.Int.v", "(Array Int Int)")
	return "big.Int.v"
}

func resT(fn *types.Func, i int) types.Type { return fn.Type().(*types.Signature).Results().At(i).Type() }

func init() {
	H := libHandlers
	bigMods := func(fr *Frame, c *ast.CallExpr, ms *modSet, markLhs func(ast.Expr)) { ms.heapKeys[fr.x.bigKey()] = true }
	libMods["(*math/big.Int).SetString"] = bigMods
	libMods["math/big.NewInt"] = bigMods
	libMods["(*math/big.Int).SetBytes"] = bigMods

	H["(*math/big.Int).SetString"] = func(fr *Frame, st *State, c *ast.CallExpr, fn *types.Func) []Val {
		x := fr.x
		x.used("math/big.Int.SetString(s,10): ok <=> parses10(s); value parse10(s) (any integer, sign allowed)")
		x.need("parses10")
		z := fr.recvOf(st, c)
		s := fr.expr(st, c.Args[0])
		base := fr.expr(st, c.Args[1])
		if base.T != "10" {
			return []Val{fr.unsupported(st, c, "SetString base", resT(fn, 0)), x.havocVal("ok", types.Typ[types.Bool])}
		}
		ok := x.bind(Val{T: "(parses10 " + s.T + ")", S: "Bool", Ty: types.Typ[types.Bool]}, "ok")
		key := x.bigKey()
		hv := x.u.fresh("bigv", "Int")
		x.heapStore(st, key, z.T, "(ite "+ok.T+" (parse10 "+s.T+") "+hv+")")
		r := x.bind(Val{T: "(ite " + ok.T + " " + z.T + " 0)", S: "Int", Ty: resT(fn, 0)}, "z")
		return []Val{r, ok}
	}
	H["math/big.NewInt"] = func(fr *Frame, st *State, c *ast.CallExpr, fn *types.Func) []Val {
		x := fr.x
		v := fr.expr(st, c.Args[0])
		r := x.alloc(st, "big")
		x.heapStore(st, x.bigKey(), r, v.T)
		return []Val{{T: r, S: "Int", Ty: resT(fn, 0)}}
	}
	bigv := func(fr *Frame, st *State, e ast.Expr) string {
		v := fr.expr(st, e)
		fr.safety(st, "nil-deref", fr.src(e), e, "(not (= "+v.T+" 0))")
		return fr.x.bind(Val{T: "(select " + fr.x.getHeap(st, fr.x.bigKey()) + " " + v.T + ")", S: "Int"}, "bv").T
	}
	H["(*math/big.Int).Cmp"] = func(fr *Frame, st *State, c *ast.CallExpr, fn *types.Func) []Val {
		x := fr.x
		x.used("math/big.Int.Cmp/Sign/IsUint64: mathematical comparison")
		a := bigv(fr, st, ast.Unparen(c.Fun).(*ast.SelectorExpr).X)
		b := bigv(fr, st, c.Args[0])
		return []Val{x.bind(Val{T: fmt.Sprintf("(ite (< %s %s) (- 1) (ite (= %s %s) 0 1))", a, b, a, b), S: "Int", Ty: types.Typ[types.Int]}, "cmp")}
	}
	H["(*math/big.Int).Sign"] = func(fr *Frame, st *State, c *ast.CallExpr, fn *types.Func) []Val {
		x := fr.x
		a := bigv(fr, st, ast.Unparen(c.Fun).(*ast.SelectorExpr).X)
		return []Val{x.bind(Val{T: fmt.Sprintf("(ite (< %s 0) (- 1) (ite (= %s 0) 0 1))", a, a), S: "Int", Ty: types.Typ[types.Int]}, "sgn")}
	}
	H["(*math/big.Int).IsUint64"] = func(fr *Frame, st *State, c *ast.CallExpr, fn *types.Func) []Val {
		x := fr.x
		x.used("math/big.Int.Cmp/Sign/IsUint64: mathematical comparison")
		a := bigv(fr, st, ast.Unparen(c.Fun).(*ast.SelectorExpr).X)
		return []Val{x.bind(Val{T: fmt.Sprintf("(and (<= 0 %s) (< %s 18446744073709551616))", a, a), S: "Bool", Ty: types.Typ[types.Bool]}, "isu")}
	}
	H["(*math/big.Int).Uint64"] = func(fr *Frame, st *State, c *ast.CallExpr, fn *types.Func) []Val {
		x := fr.x
		x.used("math/big.Int.Uint64(): low 64 bits of |z| (what the implementation returns outside the documented range)")
		a := bigv(fr, st, ast.Unparen(c.Fun).(*ast.SelectorExpr).X)
		return []Val{x.bind(Val{T: fmt.Sprintf("(mod (ite (< %s 0) (- %s) %s) 18446744073709551616)", a, a, a), S: "Int", Ty: types.Typ[types.Uint64]}, "u64")}
	}
	H["encoding/hex.DecodeString"] = func(fr *Frame, st *State, c *ast.CallExpr, fn *types.Func) []Val {
		x := fr.x
		x.used("hex.DecodeString: err==nil <=> hexok(s); result unhex(s); unhex(hexs(b)) = b")
		x.need("hexok")
		x.need("hexs")
		s := fr.expr(st, c.Args[0])
		r := x.havocVal("dec", bytesT())
		err := x.errVal("err")
		x.u.gfact(st.pc, fmt.Sprintf("(= (= %s 0) (hexok %s))", err.T, s.T))
		x.u.gfact(st.pc, fmt.Sprintf("(=> (= %s 0) (= %s (unhex %s)))", err.T, r.T, s.T))
		return []Val{r, err}
	}
	for _, b58 := range []string{"github.com/btcsuite/btcutil/base58", "github.com/mr-tron/base58", "github.com/mr-tron/base58/base58"} {
		b58 := b58
		H[b58+".Decode"] = func(fr *Frame, st *State, c *ast.CallExpr, fn *types.Func) []Val {
			x := fr.x
			x.used("base58.Decode/Encode: uninterpreted, Decode(Encode(b)) = b")
			x.need("b58dec")
			s := fr.expr(st, c.Args[0])
			r := x.bind(Val{T: "(b58dec " + s.T + ")", S: x.bytesSort(), Ty: bytesT()}, "b58")
			x.emitTypeFact(st, r)
			out := []Val{r}
			if fn.Type().(*types.Signature).Results().Len() == 2 {
				out = append(out, x.errVal("err"))
			}
			return out
		}
		H[b58+".Encode"] = func(fr *Frame, st *State, c *ast.CallExpr, fn *types.Func) []Val {
			x := fr.x
			x.used("base58.Decode/Encode: uninterpreted, Decode(Encode(b)) = b")
			x.need("b58enc")
			b := fr.expr(st, c.Args[0])
			return []Val{x.bind(Val{T: "(b58enc " + b.T + ")", S: "GoString", Ty: types.Typ[types.String]}, "b58")}
		}
	}
	for _, w := range []int{2, 4, 8} {
		w := w
		name := fmt.Sprintf("(encoding/binary.bigEndian).Uint%d", w*8)
		H[name] = func(fr *Frame, st *State, c *ast.CallExpr, fn *types.Func) []Val {
			x := fr.x
			x.used("binary.BigEndian.UintN: big-endian value of the first N/8 bytes; panics if shorter")
			b := fr.expr(st, c.Args[0])
			fr.safety(st, "index", fr.src(c), c, fmt.Sprintf("(>= (slen_Int %s) %d)", b.T, w))
			r := x.havocVal("be", resT(fn, 0))
			for j := 0; j < w; j++ {
				x.u.fact(fmt.Sprintf("(and (<= 0 (select (sarr_Int %s) %d)) (<= (select (sarr_Int %s) %d) 255))", b.T, j, b.T, j))
			}
			x.u.gfact(st.pc, fmt.Sprintf("(= %s %s)", r.T, beSum("(sarr_Int "+b.T+")", "0", w)))
			return []Val{r}
		}
	}
	H["bytes.Equal"] = func(fr *Frame, st *State, c *ast.CallExpr, fn *types.Func) []Val {
		x := fr.x
		a := fr.expr(st, c.Args[0])
		b := fr.expr(st, c.Args[1])
		q := "k$q" + fmt.Sprint(x.nextQ())
		t := fmt.Sprintf("(and (= (slen_Int %s) (slen_Int %s)) (forall ((%s Int)) (=> (and (<= 0 %s) (< %s (slen_Int %s))) (= (select (sarr_Int %s) %s) (select (sarr_Int %s) %s)))))", a.T, b.T, q, q, q, a.T, a.T, q, b.T, q)
		return []Val{x.bind(Val{T: t, S: "Bool", Ty: types.Typ[types.Bool]}, "eq")}
	}
	H["bytes.Trim"] = func(fr *Frame, st *State, c *ast.CallExpr, fn *types.Func) []Val {
		x := fr.x
		x.used("bytes.Trim(bs, \"\\x00\"): uninterpreted function trimzero of the content")
		x.need("trimzero")
		a := fr.expr(st, c.Args[0])
		fr.expr(st, c.Args[1])
		r := x.bind(Val{T: "(trimzero " + a.T + ")", S: x.bytesSort(), Ty: bytesT()}, "trim")
		x.emitTypeFact(st, r)
		return []Val{r}
	}
}

// ---- time: a ghost monotone clock "now" (nanoseconds); every reading may advance it ----

func (x *Exec) clockRead(st *State) string {
	cur, ok := st.ghost["now"]
	n := x.u.fresh("now", "Int")
	if ok {
		x.u.fact("(>= " + n + " " + cur.T + ")")
	} else {
		x.u.fact("(>= " + n + " " + x.now0() + ")")
	}
	st.ghost["now"] = Val{T: n, S: "Int"}
	return n
}

func (x *Exec) now0() string {
	if !x.u.sortSeen["now!0"] {
		x.u.sortSeen["now!0"] = true
		x.u.decls = append(x.u.decls, "(declare-const now!0 Int)")
		x.u.fact("(>= now!0 0)")
	}
	return "now!0"
}

func init() {
	H := libHandlers
	nowH := func(fr *Frame, st *State, c *ast.CallExpr, fn *types.Func) []Val {
		x := fr.x
		x.used("time.Now / clock.Now: ghost monotone clock; each reading is >= the previous one")
		x.u.declSort("Time")
		if se, ok := ast.Unparen(c.Fun).(*ast.SelectorExpr); ok {
			if fr.info.Selections[se] != nil {
				fr.expr(st, se.X)
			}
		}
		n := x.clockRead(st)
		t := x.havocVal("t", resT(fn, 0))
		x.u.fact("(= (time.ns " + t.T + ") " + n + ")")
		return []Val{t}
	}
	H["time.Now"] = nowH
	H["(github.com/benbjohnson/clock.Clock).Now"] = nowH
	H["(*github.com/benbjohnson/clock.Mock).Now"] = nowH
	H["time.Since"] = func(fr *Frame, st *State, c *ast.CallExpr, fn *types.Func) []Val {
		x := fr.x
		x.used("time.Since(t) = now - t on the ghost clock (saturation ignored)")
		t := fr.expr(st, c.Args[0])
		n := x.clockRead(st)
		return []Val{x.bind(Val{T: "(- " + n + " (time.ns " + t.T + "))", S: "Int", Ty: resT(fn, 0)}, "since")}
	}
	H["(time.Time).Sub"] = func(fr *Frame, st *State, c *ast.CallExpr, fn *types.Func) []Val {
		x := fr.x
		x.used("time.Time.Sub: difference in nanoseconds (saturation ignored)")
		a := fr.recvOf(st, c)
		b := fr.expr(st, c.Args[0])
		return []Val{x.bind(Val{T: "(- (time.ns " + a.T + ") (time.ns " + b.T + "))", S: "Int", Ty: resT(fn, 0)}, "dur")}
	}
	for name, div := range map[string]string{"Hours": "3600000000000.0", "Minutes": "60000000000.0", "Seconds": "1000000000.0"} {
		div := div
		H["(time.Duration)."+name] = func(fr *Frame, st *State, c *ast.CallExpr, fn *types.Func) []Val {
			x := fr.x
			x.used("time.Duration.Hours/Minutes/Seconds: exact real division (float rounding ignored)")
			d := fr.recvOf(st, c)
			return []Val{x.bind(Val{T: "(/ (to_real " + d.T + ") " + div + ")", S: "Real", Ty: resT(fn, 0)}, "durf")}
		}
	}
	tick := func(fr *Frame, st *State, c *ast.CallExpr, fn *types.Func) []Val {
		x := fr.x
		for _, a := range c.Args {
			fr.expr(st, a)
		}
		r := x.alloc(st, "ticker")
		return []Val{{T: r, S: "Int", Ty: resT(fn, 0)}}
	}
	H["(github.com/benbjohnson/clock.Clock).Ticker"] = tick
	H["time.NewTicker"] = tick
}

func init() {
	H := libHandlers
	// proto.Marshal of the generated gossip messages: assumed not to fail (listed)
	H["google.golang.org/protobuf/proto.Marshal"] = func(fr *Frame, st *State, c *ast.CallExpr, fn *types.Func) []Val {
		x := fr.x
		x.used("proto.Marshal: returns some bytes and a nil error for the generated message types used here")
		fr.expr(st, c.Args[0])
		b := x.havocVal("pb", bytesT())
		x.u.fact("(not (snil_Int " + b.T + "))")
		return []Val{b, {T: "0", S: "Int", Ty: errT()}}
	}
	// proto.Unmarshal: the message the second argument points to gets arbitrary content (the
	// decoder is not modelled), the error is arbitrary
	H["google.golang.org/protobuf/proto.Unmarshal"] = func(fr *Frame, st *State, c *ast.CallExpr, fn *types.Func) []Val {
		x := fr.x
		x.used("proto.Unmarshal: the target message holds arbitrary field values afterwards; any error value")
		fr.expr(st, c.Args[0])
		p := fr.expr(st, c.Args[1])
		if p.Ty != nil {
			if pt, ok := p.Ty.Underlying().(*types.Pointer); ok {
				if stt, ok := pt.Elem().Underlying().(*types.Struct); ok {
					for j := 0; j < stt.NumFields(); j++ {
						f := stt.Field(j)
						if !f.Exported() {
							continue // protobuf bookkeeping (state, sizeCache, unknownFields)
						}
						hv := x.havocVal("pb_"+f.Name(), f.Type())
						x.emitTypeFact(st, hv)
						x.writeField(st, p, pt.Elem(), f, hv)
					}
				}
			}
		}
		return []Val{x.errVal("err")}
	}
	// the node's guardian signer: assumed to work (the code panics by design otherwise)
	H["(github.com/alephium/wormhole-fork/node/pkg/ecdsasigner.ECDSASigner).Sign"] = func(fr *Frame, st *State, c *ast.CallExpr, fn *types.Func) []Val {
		x := fr.x
		x.used("guardianSigner.Sign: assumed to succeed; result is a 65-byte signature valid over the digest (ecrec_ok)")
		x.u.fixedSort(32)
		x.u.fixedSort(65)
		x.need("ecrec")
		fr.recvOf(st, c)
		d := fr.expr(st, c.Args[0])
		sig := x.havocVal("sig", bytesT())
		x.u.gfact(st.pc, fmt.Sprintf("(and (= (slen_Int %s) 65) (not (snil_Int %s)) (=> (= (slen_Int %s) 32) (ecrec_ok (from32 %s) (from65 %s))))", sig.T, sig.T, d.T, d.T, sig.T))
		return []Val{sig, {T: "0", S: "Int", Ty: errT()}}
	}
}

func init() {
	libHandlers["(github.com/alephium/wormhole-fork/node/pkg/ecdsasigner.ECDSASigner).PublicKey"] = func(fr *Frame, st *State, c *ast.CallExpr, fn *types.Func) []Val {
		fr.recvOf(st, c)
		return []Val{fr.x.havocVal("pub", resT(fn, 0))}
	}
}

// ---- gocache (explorer deduplicator): ghost set of keys that were Set; Get may miss a key
// that was set (eviction) but never reports a key that was never set ----
// sync.Mutex / sync.RWMutex that are fields of a struct: a ghost hold counter per (owner,
// field). Lock/RLock increment it, Unlock/RUnlock decrement it (unlocking a mutex that is not
// held is a runtime panic: safety obligation); every unit must leave each counter as it found
// it (obligation lock-balance at exit). Blocking on a held mutex is not modelled.
func (fr *Frame) mutexKey(st *State, c *ast.CallExpr) (string, Val, bool) {
	se, ok := ast.Unparen(c.Fun).(*ast.SelectorExpr)
	if !ok {
		return "", Val{}, false
	}
	fs, ok := ast.Unparen(se.X).(*ast.SelectorExpr)
	if !ok {
		return "", Val{}, false
	}
	sel := fr.info.Selections[fs]
	if sel == nil || sel.Kind() != types.FieldVal {
		return "", Val{}, false
	}
	ot := fr.typeOf(fs.X)
	if ot == nil {
		return "", Val{}, false
	}
	base, isPtr := derefType(ot)
	if !isPtr {
		return "", Val{}, false
	}
	owner := fr.expr(st, fs.X)
	key := "mutex:" + shortPkg(types.TypeString(base, nil)) + "." + fs.Sel.Name
	fr.x.u.regHeap(key, "(Array Int Int)")
	return key, owner, true
}

// Monitors ("//@ monitor (st *T) mu()" blocks): the mutex field guards the places listed under
// modifies, and the invariant clauses hold whenever the mutex is free. Releasing the mutex
// has to re-establish the invariant (obligation monitor:<key>:invariant-at-unlock); acquiring
// it lets the unit assume the invariant, and when the unit had released the same mutex before
// on this path, the guarded places hold arbitrary values satisfying the invariant: whatever
// the unit learned in an earlier critical section may have been changed by another goroutine
// (check-then-act across two critical sections is not atomic).
func (fr *Frame) monitorEnv(st *State, mon *Contract, owner Val) *SpecEnv {
	names := map[string]Val{}
	if mon.Recv != nil {
		names[mon.Recv.Name] = owner
	}
	return &SpecEnv{x: fr.x, pkg: fr.x.eng.pkgs[mon.Pkg], names: names, st: st, old: st, bound: map[string]bool{}}
}

// guardedAccess: a field listed under a monitor's modifies may be read or written only while
// the monitor's mutex is held by the unit (hold counter of the same owner > 0), or on an
// object the unit allocated itself (not shared yet). Anything else is a data race with the
// goroutines that do take the lock.
func (fr *Frame) guardedAccess(st *State, n ast.Node, p Val, base types.Type, f *types.Var, what string) {
	x := fr.x
	if len(x.eng.monitors) == 0 {
		return
	}
	if x.guardedBy == nil {
		x.guardedBy = map[string]string{}
		var mks []string
		for mk := range x.eng.monitors {
			mks = append(mks, mk)
		}
		sort.Strings(mks)
		for _, mk := range mks {
			mon := x.eng.monitors[mk]
			if x.eng.pkgs[mon.Pkg] == nil {
				continue
			}
			for _, m := range mon.Modifies {
				if strings.HasPrefix(m, "map[") || strings.HasPrefix(m, "chan") || strings.HasPrefix(m, "lib:") || m == "*" {
					continue
				}
				func() {
					defer func() { recover() }()
					for _, k := range x.placeKeys(x.eng.pkgs[mon.Pkg], m) {
						x.guardedBy[k] = mk
					}
				}()
			}
		}
	}
	mk, ok := x.guardedBy[x.u.heapKeyForField(f, base)]
	if !ok {
		return
	}
	short := strings.TrimPrefix(mk, "mutex:")
	x.u.regHeap(mk, "(Array Int Int)")
	x.used("monitor " + short + ": guarded fields are accessed only while the mutex is held (or on objects the unit allocated itself)")
	goal := fmt.Sprintf("(or (> (select %s %s) 0) (>= %s %s))", x.getHeap(st, mk), p.T, p.T, x.next0)
	x.u.oblige("monitor:"+short+":guarded-access:"+what+":"+f.Name(), "monitor", what+" of "+f.Name()+" while "+short+" is held", fr.pos(n.Pos()), st.pc, goal)
}

// guardedMapAccess: the contents of a map whose type is listed under a monitor's modifies are
// read, ranged over or written only while the unit holds that monitor (of some owner: map
// contents are keyed by type, not by owner), or when the map was made by the unit itself.
func (fr *Frame) guardedMapAccess(st *State, n ast.Node, m Val, what string) {
	x := fr.x
	if len(x.eng.monitors) == 0 || m.Ty == nil {
		return
	}
	mt, ok := m.Ty.Underlying().(*types.Map)
	if !ok {
		return
	}
	if x.guardedMaps == nil {
		x.guardedMaps = map[string]string{}
		var mks []string
		for mk := range x.eng.monitors {
			mks = append(mks, mk)
		}
		sort.Strings(mks)
		for _, mk := range mks {
			mon := x.eng.monitors[mk]
			if x.eng.pkgs[mon.Pkg] == nil {
				continue
			}
			for _, pl := range mon.Modifies {
				if !strings.HasPrefix(pl, "map[") {
					continue
				}
				func() {
					defer func() { recover() }()
					for _, k := range x.placeKeys(x.eng.pkgs[mon.Pkg], pl) {
						x.guardedMaps[k] = mk
					}
				}()
			}
		}
	}
	dom, _, _, _ := x.u.mapKeys(mt)
	mk, ok := x.guardedMaps[dom]
	if !ok {
		return
	}
	short := strings.TrimPrefix(mk, "mutex:")
	cnt := "0"
	if g, ok := st.ghost["mcnt:"+mk]; ok {
		cnt = g.T
	}
	x.used("monitor " + short + ": contents of guarded maps are accessed only while the mutex is held (or on maps the unit made itself)")
	goal := fmt.Sprintf("(or (> %s 0) (>= %s %s))", cnt, m.T, x.next0)
	x.u.oblige("monitor:"+short+":guarded-access:"+what+":"+shortPkg(types.TypeString(mt, nil)), "monitor", what+" of a guarded map while "+short+" is held", fr.pos(n.Pos()), st.pc, goal)
}

func (fr *Frame) monitorRelease(st *State, c *ast.CallExpr, key string, owner Val, mon *Contract) {
	x := fr.x
	short := strings.TrimPrefix(key, "mutex:")
	x.used("monitor " + short + ": invariant re-established at every release; guarded state arbitrary (within the invariant) when re-acquired after a release")
	env := fr.monitorEnv(st, mon, owner)
	for _, inv := range mon.Requires {
		t, err := fr.evalClause(env, inv)
		if err != nil {
			x.u.oblige("monitor:"+short+":invariant-at-unlock:"+inv.Label, "contract-stale", inv.Src, fr.pos(c.Pos()), st.pc, "false").Clause = "contract-stale: " + err.Error()
			continue
		}
		x.u.oblige("monitor:"+short+":invariant-at-unlock:"+inv.Label, "assert", inv.Src, fr.pos(c.Pos()), st.pc, t)
	}
	// guarantee: what this critical section did to the guarded state, relative to the state
	// at its acquisition, is within what the other goroutines rely on
	if acq := x.monAcq[key]; acq != nil && len(mon.Guarantee) > 0 {
		genv := fr.monitorEnv(st, mon, owner)
		genv.old = acq
		for _, g := range mon.Guarantee {
			t, err := fr.evalClause(genv, g)
			if err != nil {
				x.u.oblige("monitor:"+short+":guarantee-at-unlock:"+g.Label, "contract-stale", g.Src, fr.pos(c.Pos()), st.pc, "false").Clause = "contract-stale: " + err.Error()
				continue
			}
			x.u.oblige("monitor:"+short+":guarantee-at-unlock:"+g.Label, "assert", g.Src, fr.pos(c.Pos()), st.pc, t)
		}
	}
	st.ghost["mrel:"+key] = Val{T: "true", S: "Bool"}
}

func (fr *Frame) monitorAcquire(st *State, c *ast.CallExpr, key string, owner Val, mon *Contract) {
	x := fr.x
	if flag, ok := st.ghost["mrel:"+key]; ok && flag.T != "false" {
		hv := func(s *State) {
			pre := s.clone()
			for _, m := range mon.Modifies {
				for _, k := range x.placeKeys(x.eng.pkgs[mon.Pkg], m) {
					x.havocHeap(s, k)
				}
			}
			// rely: what the other goroutines may have done since the release
			renv := fr.monitorEnv(s, mon, owner)
			renv.old = pre
			for _, r := range mon.Rely {
				if t, err := fr.evalClause(renv, r); err == nil {
					x.u.gfact(s.pc, t)
				}
			}
		}
		if flag.T == "true" {
			hv(st)
		} else {
			yes := st.clone()
			yes.pc = x.namePC(x.and(st.pc, flag.T))
			no := st.clone()
			no.pc = x.namePC(x.and(st.pc, not(flag.T)))
			hv(yes)
			*st = *x.merge([]*State{yes, no})
		}
	}
	env := fr.monitorEnv(st, mon, owner)
	for _, inv := range mon.Requires {
		t, err := fr.evalClause(env, inv)
		if err != nil {
			x.u.oblige("monitor:"+strings.TrimPrefix(key, "mutex:")+":invariant-at-lock:"+inv.Label, "contract-stale", inv.Src, fr.pos(c.Pos()), st.pc, "false").Clause = "contract-stale: " + err.Error()
			continue
		}
		x.u.gfact(st.pc, t)
	}
	if x.monAcq == nil {
		x.monAcq = map[string]*State{}
	}
	x.monAcq[key] = st.clone()
	x.lastAcq = x.monAcq[key]
}

func init() {
	lock := func(delta int, check bool) libHandler {
		return func(fr *Frame, st *State, c *ast.CallExpr, fn *types.Func) []Val {
			x := fr.x
			key, owner, ok := fr.mutexKey(st, c)
			if !ok {
				fr.recvOf(st, c)
				return nil
			}
			x.used("sync.Mutex/RWMutex fields: ghost hold counter per (owner, field); every unit leaves it as it found it; blocking is not modelled")
			cur := "(select " + x.getHeap(st, key) + " " + owner.T + ")"
			if check {
				fr.safety(st, "unlock-of-unlocked-mutex", fr.src(c), c, "(> "+cur+" 0)")
			}
			if mon := x.eng.monitors[key]; mon != nil && delta < 0 {
				fr.monitorRelease(st, c, key, owner, mon)
			}
			x.heapStore(st, key, owner.T, fmt.Sprintf("(+ %s %d)", cur, delta))
			if x.eng.monitors[key] != nil {
				// how many holds of this monitor (any owner) the unit has right now
				cnt := "0"
				if g, ok := st.ghost["mcnt:"+key]; ok {
					cnt = g.T
				}
				st.ghost["mcnt:"+key] = x.bind(Val{T: fmt.Sprintf("(+ %s %d)", cnt, delta), S: "Int"}, "mcnt")
			}
			if mon := x.eng.monitors[key]; mon != nil && delta > 0 {
				fr.monitorAcquire(st, c, key, owner, mon)
			}
			if x.mutexKeys == nil {
				x.mutexKeys = map[string]bool{}
			}
			x.mutexKeys[key] = true
			return nil
		}
	}
	for _, t := range []string{"(*sync.Mutex)", "(*sync.RWMutex)"} {
		libHandlers[t+".Lock"] = lock(1, false)
		libHandlers[t+".Unlock"] = lock(-1, true)
	}
	libHandlers["(*sync.RWMutex).RLock"] = lock(1, false)
	libHandlers["(*sync.RWMutex).RUnlock"] = lock(-1, true)
	mm := func(fr *Frame, c *ast.CallExpr, ms *modSet, markLhs func(ast.Expr)) {
		se, ok := ast.Unparen(c.Fun).(*ast.SelectorExpr)
		if !ok {
			return
		}
		if fs, ok := ast.Unparen(se.X).(*ast.SelectorExpr); ok {
			if ot := fr.typeOf(fs.X); ot != nil {
				if base, isPtr := derefType(ot); isPtr {
					key := "mutex:" + shortPkg(types.TypeString(base, nil)) + "." + fs.Sel.Name
					fr.x.u.regHeap(key, "(Array Int Int)")
					ms.heapKeys[key] = true
				}
			}
		}
	}
	for _, n := range []string{"(*sync.Mutex).Lock", "(*sync.Mutex).Unlock", "(*sync.RWMutex).Lock", "(*sync.RWMutex).Unlock", "(*sync.RWMutex).RLock", "(*sync.RWMutex).RUnlock"} {
		libMods[n] = mm
	}
}

func init() {
	// sync/atomic.Bool: one Bool cell per object (sequentially consistent; interleavings with
	// other goroutines are not modelled)
	libHandlers["(*sync/atomic.Bool).Store"] = func(fr *Frame, st *State, c *ast.CallExpr, fn *types.Func) []Val {
		x := fr.x
		x.u.regHeap("atomic.Bool.v", "(Array Int Bool)")
		r := fr.recvOf(st, c)
		v := fr.expr(st, c.Args[0])
		x.heapStore(st, "atomic.Bool.v", r.T, v.T)
		return nil
	}
	libHandlers["(*sync/atomic.Bool).Load"] = func(fr *Frame, st *State, c *ast.CallExpr, fn *types.Func) []Val {
		x := fr.x
		x.u.regHeap("atomic.Bool.v", "(Array Int Bool)")
		r := fr.recvOf(st, c)
		return []Val{{T: "(select " + x.getHeap(st, "atomic.Bool.v") + " " + r.T + ")", S: "Bool", Ty: types.Typ[types.Bool]}}
	}
	abm := func(fr *Frame, c *ast.CallExpr, ms *modSet, markLhs func(ast.Expr)) {
		fr.x.u.regHeap("atomic.Bool.v", "(Array Int Bool)")
		ms.heapKeys["atomic.Bool.v"] = true
	}
	libMods["(*sync/atomic.Bool).Store"] = abm
}

func init() {
	libHandlers["(error).Error"] = func(fr *Frame, st *State, c *ast.CallExpr, fn *types.Func) []Val {
		x := fr.x
		x.used("error.Error(): the text is a function of the error value (errors are immutable)")
		x.u.declSort("GoString")
		x.need("errstr")
		r := fr.recvOf(st, c)
		return []Val{{T: "(errstr " + r.T + ")", S: "GoString", Ty: types.Typ[types.String]}}
	}
}

func init() {
	H := libHandlers
	for _, inst := range []string{"[bool]", "[T]"} {
		base := "(github.com/eko/gocache/v3/cache.CacheInterface" + inst + ")."
		H[base+"Get"] = func(fr *Frame, st *State, c *ast.CallExpr, fn *types.Func) []Val {
			x := fr.x
			x.used("gocache Get/Set: ghost key set; Get may miss a set key (eviction), never hits an unset key; Set calls are counted")
			x.u.declSort("GoString")
			x.u.regHeap("cache.keys", "(Array Int (Array GoString Bool))")
			r := fr.recvOf(st, c)
			fr.expr(st, c.Args[0])
			k := fr.expr(st, c.Args[1])
			v := x.havocVal("hit", types.Typ[types.Bool])
			err := x.errVal("err")
			x.u.gfact(st.pc, fmt.Sprintf("(=> %s (select (select %s %s) %s))", v.T, x.getHeap(st, "cache.keys"), r.T, k.T))
			return []Val{v, err}
		}
		H[base+"Set"] = func(fr *Frame, st *State, c *ast.CallExpr, fn *types.Func) []Val {
			x := fr.x
			x.u.declSort("GoString")
			x.u.regHeap("cache.keys", "(Array Int (Array GoString Bool))")
			r := fr.recvOf(st, c)
			fr.expr(st, c.Args[0])
			k := fr.expr(st, c.Args[1])
			for _, a := range c.Args[2:] {
				fr.expr(st, a)
			}
			old := x.getHeap(st, "cache.keys")
			x.heapStore(st, "cache.keys", r.T, fmt.Sprintf("(store (select %s %s) %s true)", old, r.T, k.T))
			x.countInc(st, "cache.Set")
			return []Val{x.errVal("err")}
		}
	}
}

func init() {
	libHandlers["(time.Time).UnixMilli"] = func(fr *Frame, st *State, c *ast.CallExpr, fn *types.Func) []Val {
		x := fr.x
		x.used("time.Time.UnixMilli: nanoseconds div 10^6")
		t := fr.recvOf(st, c)
		return []Val{x.bind(Val{T: "(div (time.ns " + t.T + ") 1000000)", S: "Int", Ty: resT(fn, 0)}, "ms")}
	}
}
