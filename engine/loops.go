package main

import (
	"fmt"
	"go/ast"
	"go/token"
	"go/types"
	"sort"
	"strings"
)

// loopKey renders the header a loop is keyed by in contracts.
func (fr *Frame) loopKey(s ast.Stmt) string {
	switch n := s.(type) {
	case *ast.RangeStmt:
		return "range " + fr.src(n.X)
	case *ast.ForStmt:
		if n.Cond != nil {
			return fr.src(n.Cond)
		}
		return "for"
	}
	return "?"
}

func normKey(s string) string { return strings.Join(strings.Fields(s), " ") }

func (fr *Frame) findLoopSpec(s ast.Stmt) *LoopSpec {
	if fr.contract == nil {
		return nil
	}
	key := normKey(fr.loopKey(s))
	fr.loopOrd[key]++
	ord := fr.loopOrd[key]
	for _, ls := range fr.contract.Loops {
		if normKey(ls.Key) == key && ls.Ord == ord {
			fr.x.loopHits[ls] = true
			return ls
		}
	}
	for _, ls := range fr.contract.Loops {
		if normKey(ls.Key) == key && ls.Ord == 0 {
			fr.x.loopHits[ls] = true
			return ls
		}
	}
	return nil
}

// modSet collects what a loop body may modify.
type modSet struct {
	vars     map[*types.Var]bool
	heapAll  bool
	heapKeys map[string]bool
	seenLits map[*ast.FuncLit]bool
	counts   map[string]bool // ghost call counters the code may increment
}

// findLocalLit finds the function literal a local identifier of the unit is bound to.
func (fr *Frame) findLocalLit(id *ast.Ident) *ast.FuncLit {
	obj := fr.info.ObjectOf(id)
	root := fr.rootBody()
	if obj == nil || root == nil {
		return nil
	}
	var found *ast.FuncLit
	ast.Inspect(root, func(n ast.Node) bool {
		if as, ok := n.(*ast.AssignStmt); ok {
			for i, l := range as.Lhs {
				if lid, ok := l.(*ast.Ident); ok && fr.info.ObjectOf(lid) == obj && i < len(as.Rhs) {
					if fl, ok := as.Rhs[i].(*ast.FuncLit); ok {
						found = fl
					}
				}
			}
		}
		return true
	})
	return found
}

func (fr *Frame) rootBody() *ast.BlockStmt {
	if fr.unitBody != nil {
		return fr.unitBody
	}
	return fr.body
}

func (fr *Frame) collectMods(nodes []ast.Node, declaredInside map[*types.Var]bool) *modSet {
	x := fr.x
	ms := &modSet{vars: map[*types.Var]bool{}, heapKeys: map[string]bool{}, counts: map[string]bool{}}
	var markLhs func(l ast.Expr)
	markLhs = func(l ast.Expr) {
		switch n := ast.Unparen(l).(type) {
		case *ast.Ident:
			if o, ok := fr.info.ObjectOf(n).(*types.Var); ok {
				ms.vars[o] = true
				if x.eng.isCellVar(o) {
					for _, k := range x.cellKeys(o) {
						ms.heapKeys[k] = true
					}
				}
			}
		case *ast.SelectorExpr:
			sel := fr.info.Selections[n]
			if sel != nil && sel.Kind() == types.FieldVal {
				bt := fr.typeOf(n.X)
				base, isPtr := derefType(bt)
				if isPtr {
					if stt, ok := base.Underlying().(*types.Struct); ok && len(sel.Index()) == 1 {
						ms.heapKeys[x.u.heapKeyForField(stt.Field(sel.Index()[0]), base)] = true
						return
					}
					ms.heapAll = true
				} else {
					markLhs(n.X)
				}
			}
		case *ast.IndexExpr:
			bt := fr.typeOf(n.X)
			if bt != nil && isMap(bt) {
				dom, val, _, _ := x.u.mapKeys(bt.Underlying().(*types.Map))
				ms.heapKeys[dom] = true
				ms.heapKeys[val] = true
			} else {
				markLhs(n.X)
			}
		case *ast.StarExpr:
			ms.heapAll = true
		}
	}
	for _, nd := range nodes {
		if nd == nil {
			continue
		}
		ast.Inspect(nd, func(n ast.Node) bool {
			switch s := n.(type) {
			case *ast.AssignStmt:
				for _, l := range s.Lhs {
					markLhs(l)
				}
			case *ast.IncDecStmt:
				markLhs(s.X)
			case *ast.RangeStmt:
				if s.Key != nil {
					markLhs(s.Key)
				}
				if s.Value != nil {
					markLhs(s.Value)
				}
			case *ast.SendStmt:
				nk, lk, _ := x.chanKeys(chanElem(fr.typeOf(s.Chan)))
				ms.heapKeys[nk] = true
				ms.heapKeys[lk] = true
			case *ast.UnaryExpr:
				if s.Op == token.AND {
					// &x passed somewhere: x may be written through the pointer
					if id, ok := s.X.(*ast.Ident); ok {
						markLhs(id)
					} else if _, ok := s.X.(*ast.SelectorExpr); ok {
						markLhs(s.X)
					}
				}
			case *ast.CompositeLit:
				if t := fr.typeOf(s); t != nil {
					if stt, ok := t.Underlying().(*types.Struct); ok && x.u.sortOf(t) != "Time" {
						for i := 0; i < stt.NumFields(); i++ {
							ms.heapKeys[x.u.heapKeyForField(stt.Field(i), t)] = true
						}
					}
					if mt, ok := t.Underlying().(*types.Map); ok {
						dom, val, _, _ := x.u.mapKeys(mt)
						ms.heapKeys[dom] = true
						ms.heapKeys[val] = true
					}
				}
			case *ast.CallExpr:
				fr.callMods(s, ms, markLhs)
			case *ast.FuncLit:
				return true
			}
			return true
		})
	}
	return ms
}

// callMods adds the write effects of a call.
func (fr *Frame) callMods(c *ast.CallExpr, ms *modSet, markLhs func(ast.Expr)) {
	x := fr.x
	if tv, ok := fr.info.Types[c.Fun]; ok && tv.IsType() {
		return
	}
	if id, ok := c.Fun.(*ast.Ident); ok {
		if b, isB := fr.info.ObjectOf(id).(*types.Builtin); isB {
			switch b.Name() {
			case "delete":
				if mt, ok := fr.typeOf(c.Args[0]).Underlying().(*types.Map); ok {
					dom, val, _, _ := x.u.mapKeys(mt)
					ms.heapKeys[dom] = true
					ms.heapKeys[val] = true
				}
			case "copy":
				if se, ok := c.Args[0].(*ast.SliceExpr); ok {
					markLhs(se.X)
				}
			case "make":
				if mt, ok := fr.typeOf(c.Args[0]).Underlying().(*types.Map); ok {
					dom, val, _, _ := x.u.mapKeys(mt)
					ms.heapKeys[dom] = true
					ms.heapKeys[val] = true
				}
				if _, ok := fr.typeOf(c.Args[0]).Underlying().(*types.Chan); ok {
					nk, _, _ := x.chanKeys(chanElem(fr.typeOf(c.Args[0])))
					ms.heapKeys[nk] = true
				}
			case "new":
				t := fr.typeOf(c.Args[0])
				if stt, ok := t.Underlying().(*types.Struct); ok && x.eng.inRepo(t) {
					for i := 0; i < stt.NumFields(); i++ {
						ms.heapKeys[x.u.heapKeyForField(stt.Field(i), t)] = true
					}
				} else if n, ok := t.(*types.Named); ok && n.Obj().Pkg() != nil && n.Obj().Pkg().Path() == "bytes" && n.Obj().Name() == "Buffer" {
					ms.heapKeys[x.bufKey()] = true
				} else if n, ok := t.(*types.Named); ok && n.Obj().Pkg() != nil && n.Obj().Pkg().Path() == "math/big" {
					x.u.regHeap("big.Int.v", "(Array Int Int)")
					ms.heapKeys["big.Int.v"] = true
				} else {
					k := "Cell_" + sortId(x.u.sortOf(t))
					x.u.regHeap(k, "(Array Int "+x.u.sortOf(t)+")")
					ms.heapKeys[k] = true
				}
			}
			return
		}
	}
	fn := fr.calleeFunc(c)
	if fn == nil {
		if id, ok := ast.Unparen(c.Fun).(*ast.Ident); ok {
			if fr.contract != nil && fr.contract.FnSpecs[id.Name] != "" {
				return // function-typed parameter with an assumed contract: no modelled effect
			}
			// a local bound to a function literal of this function: its body's effects
			if lit := fr.findLocalLit(id); lit != nil && !ms.seenLits[lit] {
				if ms.seenLits == nil {
					ms.seenLits = map[*ast.FuncLit]bool{}
				}
				ms.seenLits[lit] = true
				sm := fr.collectMods([]ast.Node{lit.Body}, nil)
				if sm.heapAll {
					ms.heapAll = true
				}
				for k := range sm.heapKeys {
					ms.heapKeys[k] = true
				}
				for v := range sm.vars {
					ms.vars[v] = true
				}
				for k := range sm.counts {
					ms.counts[k] = true
				}
				return
			}
		}
		if _, ok := ast.Unparen(c.Fun).(*ast.FuncLit); ok {
			return // the literal's body is inspected by the enclosing walk
		}
		if nt, ok := fr.typeOf(c.Fun).(*types.Named); ok && nt.Obj().Pkg() != nil && nt.Obj().Pkg().Path() == "context" && nt.Obj().Name() == "CancelFunc" {
			return
		}
		ms.heapAll = true
		return
	}
	full := fn.FullName()
	if strings.Contains(full, "gocache/v3/cache.CacheInterface") && strings.HasSuffix(full, ".Set") {
		ms.counts["cache.Set"] = true
	}
	if lm, ok := libMods[full]; ok {
		lm(fr, c, ms, markLhs)
		return
	}
	if _, ok := libHandlers[full]; ok {
		return
	}
	if x.eng.isPurePkg(fn) {
		return
	}
	if ct := x.eng.findContract(fn); ct != nil && !ct.InlineAtCallers {
		if ct.Counts != "" {
			ms.counts[ct.Counts] = true
		}
		if !ct.ModifiesSet {
			return
		}
		for _, m := range ct.Modifies {
			if m == "*" {
				ms.heapAll = true
				continue
			}
			if strings.HasPrefix(m, "arg:") {
				// writes through a pointer argument: the pointee's field keys
				pn := strings.TrimSpace(strings.TrimPrefix(m, "arg:"))
				for i, prm := range ct.Params {
					if prm.Name == pn && i < len(c.Args) {
						if pt, ok := fr.typeOf(c.Args[i]).Underlying().(*types.Pointer); ok {
							if stt, ok := pt.Elem().Underlying().(*types.Struct); ok {
								for j := 0; j < stt.NumFields(); j++ {
									ms.heapKeys[x.u.heapKeyForField(stt.Field(j), pt.Elem())] = true
								}
							} else {
								ms.heapAll = true
							}
						}
					}
				}
				continue
			}
			for _, k := range x.placeKeys(x.eng.pkgs[ct.Pkg], m) {
				ms.heapKeys[k] = true
			}
		}
		return
	}
	// in-repo function that will be inlined: analyse its body
	if decl, dpkg := x.eng.funcDecl(fn); decl != nil && decl.Body != nil && fr.depth < 3 {
		sub := &Frame{x: x, pkg: dpkg, info: dpkg.TypesInfo, depth: fr.depth + 1, loopOrd: map[string]int{}, atOrd: map[string]int{}, closureOrd: map[string]int{}}
		sm := sub.collectMods([]ast.Node{decl.Body}, nil)
		if sm.heapAll {
			ms.heapAll = true
		}
		for k := range sm.counts {
			ms.counts[k] = true
		}
		for k := range sm.heapKeys {
			ms.heapKeys[k] = true
		}
		return
	}
	ms.heapAll = true
}

func (fr *Frame) havocMods(st *State, ms *modSet) {
	x := fr.x
	// the ghost clock at a loop head is any value not before the clock at loop entry
	if _, ok := st.ghost["now"]; ok || true {
		x.clockRead(st)
	}
	// ghost call counters only grow
	var cks []string
	for k := range st.ghost {
		if strings.HasPrefix(k, "count:") {
			cks = append(cks, k)
		}
	}
	sort.Strings(cks)
	for _, k := range cks {
		if ms.counts != nil && !ms.counts[strings.TrimPrefix(k, "count:")] {
			continue
		}
		n := x.u.fresh("cnt", "Int")
		x.u.fact("(>= " + n + " " + st.ghost[k].T + ")")
		st.ghost[k] = Val{T: n, S: "Int"}
	}
	// deterministic order (fresh names and fact order must not depend on map iteration)
	var mvars []*types.Var
	for o := range ms.vars {
		mvars = append(mvars, o)
	}
	sort.Slice(mvars, func(i, j int) bool {
		if mvars[i].Pos() != mvars[j].Pos() {
			return mvars[i].Pos() < mvars[j].Pos()
		}
		return mvars[i].Name() < mvars[j].Name()
	})
	for _, o := range mvars {
		if cur, ok := st.vars[o]; ok {
			nv := x.havocVal(o.Name(), o.Type())
			if x.eng.isCellVar(o) {
				x.storeCell(st, cur, o.Type(), nv)
			} else {
				st.vars[o] = nv
			}
		}
	}
	// mutex hold counters are not havoc'd at loop heads: every iteration has to leave them as it
	// found them (obligation loop[..]:lock-balance at the back edge)
	// a monitor released somewhere in the havoc'd region may have been released before the head
	for _, k := range x.u.heapOrder {
		if strings.HasPrefix(k, "mutex:") && (ms.heapAll || ms.heapKeys[k]) && x.eng.monitors[k] != nil {
			st.ghost["mrel:"+k] = Val{T: x.u.fresh("mrel", "Bool"), S: "Bool"}
		}
	}
	if ms.heapAll {
		for _, k := range x.u.heapOrder {
			if strings.HasPrefix(k, "mutex:") {
				continue
			}
			x.havocHeap(st, k)
		}
		x.havocAllSeen = true
	x.havocAllPCs = append(x.havocAllPCs, st.pc)
	} else {
		var hks []string
		for k := range ms.heapKeys {
			hks = append(hks, k)
		}
		sort.Strings(hks)
		for _, k := range hks {
			if strings.HasPrefix(k, "mutex:") {
				continue
			}
			x.havocHeap(st, k)
		}
	}
	// allocation frontier only grows
	nn := x.u.fresh("next", "Int")
	x.u.fact("(>= " + nn + " " + st.next + ")")
	st.next = nn
}

// loopFrame maintains, as an implicit loop invariant, the frame the function has to
// establish at exit anyway: heap locations of objects that existed at function entry are
// unchanged for every heap key the contract does not list as freely modifiable.
func (fr *Frame) loopFrame(st *State, ms *modSet, key, phase string, n ast.Node) {
	if fr.contract == nil || fr.modsInfo == nil || fr.modsInfo["*"] == "all" {
		return
	}
	x := fr.x
	var keys []string
	if ms.heapAll {
		keys = append(keys, x.u.heapOrder...)
	} else {
		for k := range ms.heapKeys {
			keys = append(keys, k)
		}
	}
	sort.Strings(keys)
	for _, k := range keys {
		if fr.modsInfo[k] == "all" || strings.HasPrefix(k, "ghost.") {
			continue
		}
		if strings.HasPrefix(k, "chan.") {
			skip := false
			for _, m := range fr.contract.Modifies {
				if strings.TrimSpace(m) == "chan" {
					skip = true
				}
			}
			if skip {
				continue
			}
		}
		q := "r$q" + fmt.Sprint(x.nextQ())
		f := fmt.Sprintf("(forall ((%s Int)) (! (=> (and (<= 0 %s) (< %s %s)) (= (select %s %s) (select %s %s))) :pattern ((select %s %s))))", q, q, q, x.next0, x.getHeap(st, k), q, x.heapInit(k), q, x.getHeap(st, k), q)
		if phase == "assume" {
			x.u.gfact(st.pc, f)
		} else {
			x.u.oblige("loop["+key+"]:frame:"+k+":"+phase, "frame", "objects existing at entry are not modified in "+k, fr.pos(n.Pos()), st.pc, f)
		}
	}
}

func (fr *Frame) loopEnv(st *State, i string) *SpecEnv {
	env := fr.specEnv(st)
	env.loopI = i
	if len(fr.loops) > 0 && fr.loops[len(fr.loops)-1].entry != nil {
		en := fr.specEnv(fr.loops[len(fr.loops)-1].entry)
		en.loopI = i
		env.entry = en
	}
	return env
}

// checkInvariants asserts (as obligations) or assumes the invariants of a loop.
func (fr *Frame) loopInvariants(st *State, ls *LoopSpec, key string, i string, phase string, n ast.Node) {
	if ls == nil {
		return
	}
	x := fr.x
	for k, inv := range ls.Invariants {
		lab := inv.Label
		if lab == "" {
			lab = fmt.Sprint(k + 1)
		}
		env := fr.loopEnv(st, i)
		t, err := fr.evalClause(env, inv)
		if err != nil {
			x.u.oblige("loop["+key+"]:inv:"+lab+":"+phase, "contract-stale", inv.Src, fr.pos(n.Pos()), st.pc, "false").Clause = "contract-stale: " + err.Error()
			continue
		}
		if phase == "assume" {
			x.u.gfact(st.pc, t)
		} else {
			x.u.oblige("loop["+key+"]:inv:"+lab+":"+phase, "inv", inv.Src, fr.pos(n.Pos()), st.pc, t)
		}
	}
}

// loopLockBalance: an iteration leaves every mutex hold counter as it found it.
func (fr *Frame) loopLockBalance(back, head *State, ms *modSet, key string, n ast.Node) {
	x := fr.x
	var ks []string
	for k := range ms.heapKeys {
		if strings.HasPrefix(k, "mutex:") {
			ks = append(ks, k)
		}
	}
	sort.Strings(ks)
	for _, k := range ks {
		if x.getHeap(back, k) == x.getHeap(head, k) {
			continue
		}
		q := "m$q" + fmt.Sprint(x.nextQ())
		x.u.oblige("loop["+key+"]:lock-balance:"+strings.TrimPrefix(k, "mutex:"), "lock-balance", "every iteration releases the mutexes it locks", fr.pos(n.Pos()), back.pc,
			fmt.Sprintf("(forall ((%s Int)) (= (select %s %s) (select %s %s)))", q, x.getHeap(back, k), q, x.getHeap(head, k), q))
	}
}

func cloneStates(in []*State) []*State {
	var out []*State
	for _, s := range in {
		if s != nil {
			out = append(out, s.clone())
		}
	}
	return out
}

// iterEnsuresAt checks the per-iteration post-conditions at an exit of the iteration other
// than the back edge (break).
func (fr *Frame) iterEnsuresAt(st, head *State, ls *LoopSpec, key, i string, n ast.Node) {
	for k, c := range ls.IterEnsures {
		lab := c.Label
		if lab == "" {
			lab = fmt.Sprint(k + 1)
		}
		env := fr.loopEnv(st, i)
		env.head = fr.loopEnv(head, i)
		env.old = head
		t, err := fr.evalClause(env, c)
		if err != nil {
			fr.x.u.oblige("loop["+key+"]:iter:"+lab, "contract-stale", c.Src, fr.pos(n.Pos()), st.pc, "false").Clause = "contract-stale: " + err.Error()
			continue
		}
		fr.x.u.oblige("loop["+key+"]:iter:"+lab, "iter-ensures", c.Src, fr.pos(n.Pos()), st.pc, t)
	}
}

// iterEnsures checks the per-iteration post-conditions at the back edge.
func (fr *Frame) iterEnsures(back, head *State, ls *LoopSpec, key, i string, n ast.Node) {
	if ls == nil {
		return
	}
	if len(ls.IterEnsures) > 0 {
		cov := fr.x.u.oblige("vacuity:loop["+key+"]:iteration-completes", "vacuity", "some iteration of the loop reaches its end", fr.pos(n.Pos()), back.pc, "true")
		cov.ExpectSat = true
	}
	for k, c := range ls.IterEnsures {
		lab := c.Label
		if lab == "" {
			lab = fmt.Sprint(k + 1)
		}
		env := fr.loopEnv(back, i)
		env.head = fr.loopEnv(head, i)
		env.old = head // in a per-iteration clause old() is the state at the head of this iteration
		t, err := fr.evalClause(env, c)
		if err != nil {
			fr.x.u.oblige("loop["+key+"]:iter:"+lab, "contract-stale", c.Src, fr.pos(n.Pos()), back.pc, "false").Clause = "contract-stale: " + err.Error()
			continue
		}
		fr.x.u.oblige("loop["+key+"]:iter:"+lab, "iter-ensures", c.Src, fr.pos(n.Pos()), back.pc, t)
	}
}

func (fr *Frame) evalClause(env *SpecEnv, c *Clause) (t string, err error) {
	defer func() {
		if r := recover(); r != nil {
			if se, ok := r.(specErr); ok {
				err = fmt.Errorf("%s", se.msg)
				return
			}
			panic(r)
		}
	}()
	return env.Bool(c.Expr), nil
}

func (fr *Frame) forStmt(st *State, n *ast.ForStmt, label string) flow {
	x := fr.x
	out := flow{}
	if n.Init != nil {
		f := fr.stmt(st, n.Init)
		st = f.next
		if st == nil {
			return out
		}
	}
	ls := fr.findLoopSpec(n)
	key := normKey(fr.loopKey(n))
	if ls != nil && ls.Ord > 0 {
		key = fmt.Sprintf("%s#%d", key, ls.Ord)
	}
	// ghost iteration counter
	iv := x.u.fresh("$i", "Int")
	x.u.fact("(= " + iv + " 0)")
	fr.loops = append(fr.loops, &loopCtx{i: iv, entry: st.clone()})
	defer func() { fr.loops = fr.loops[:len(fr.loops)-1] }()
	fr.loopInvariants(st, ls, key, iv, "entry", n)
	ms := fr.collectMods([]ast.Node{n.Body, n.Post, n.Cond}, nil)
	head := st.clone()
	if ls != nil && ls.HavocAll {
		ms.heapAll = true
	}
	fr.loopFrame(st, ms, key, "entry", n)
	fr.havocMods(head, ms)
	fr.loopFrame(head, ms, key, "assume", n)
	ih := x.u.fresh("$i", "Int")
	x.u.gfact(head.pc, "(>= "+ih+" 0)")
	fr.loops[len(fr.loops)-1].i = ih
	fr.loopInvariants(head, ls, key, ih, "assume", n)
	headSnap := head.clone()
	fr.loops[len(fr.loops)-1].head = headSnap
	var variant0 string
	if ls != nil && ls.Decreases != nil {
		env := fr.loopEnv(head, ih)
		v := env.Eval(ls.Decreases.Expr)
		variant0 = x.bind(v, "variant").T
	}
	bodySt := head.clone()
	exitSt := head.clone()
	if n.Cond != nil {
		c := fr.expr(head, n.Cond)
		bodySt = head.clone()
		exitSt = head.clone()
		bodySt.pc = x.namePC(x.and(head.pc, c.T))
		exitSt.pc = x.namePC(x.and(head.pc, not(c.T)))
	} else {
		exitSt = nil
	}
	f := fr.block(bodySt, n.Body.List)
	out.rets = append(out.rets, f.rets...)
	ends := []*State{f.next}
	exits := []*State{exitSt}
	for _, c := range f.cont {
		if c.label == "" || c.label == label {
			ends = append(ends, c.st)
		} else {
			out.cont = append(out.cont, c)
		}
	}
	var brkStates []*State
	for _, b := range f.brk {
		if b.label == "" || b.label == label {
			exits = append(exits, b.st)
			brkStates = append(brkStates, b.st)
		} else {
			out.brk = append(out.brk, b)
		}
	}
	// an iteration that leaves through break is an iteration too: its transition clauses hold
	if bs := x.merge(cloneStates(brkStates)); bs != nil && ls != nil && len(ls.IterEnsures) > 0 {
		fr.iterEnsuresAt(bs, headSnap, ls, key+":break", ih, n)
	}
	back := x.merge(ends)
	if back != nil {
		if n.Post != nil {
			pf := fr.stmt(back, n.Post)
			back = pf.next
		}
		if back != nil {
			i2 := x.bind(Val{T: "(+ " + ih + " 1)", S: "Int"}, "$i").T
			fr.loopInvariants(back, ls, key, i2, "preserved", n)
			fr.loopFrame(back, ms, key, "preserved", n)
			fr.loopLockBalance(back, headSnap, ms, key, n)
			fr.iterEnsures(back, headSnap, ls, key, ih, n)
			if variant0 != "" {
				env := fr.loopEnv(back, i2)
				v := env.Eval(ls.Decreases.Expr)
				x.u.oblige("loop["+key+"]:decreases", "decreases", ls.Decreases.Src, fr.pos(n.Pos()), back.pc,
					fmt.Sprintf("(and (>= %s 0) (< %s %s))", variant0, v.T, variant0))
			}
		}
	}
	out.next = x.merge(exits)
	return out
}

func (fr *Frame) rangeStmt(st *State, n *ast.RangeStmt, label string) flow {
	x := fr.x
	out := flow{}
	ls := fr.findLoopSpec(n)
	key := normKey(fr.loopKey(n))
	if ls != nil && ls.Ord > 0 {
		key = fmt.Sprintf("%s#%d", key, ls.Ord)
	}
	coll := fr.expr(st, n.X)
	ct := fr.typeOf(n.X)
	var isMapR bool
	var count string
	switch tt := ct.Underlying().(type) {
	case *types.Slice, *types.Array:
		count = x.lenOf(st, coll).T
	case *types.Pointer:
		coll = x.deref(st, coll, true)
		count = x.lenOf(st, coll).T
	case *types.Map:
		isMapR = true
		_ = tt
		fr.guardedMapAccess(st, n, coll, "range")
	case *types.Basic:
		if tt.Info()&types.IsInteger != 0 {
			count = coll.T
		} else {
			return fr.rangeUnsupported(st, n, label, "range over string")
		}
	default:
		return fr.rangeUnsupported(st, n, label, "range over "+ct.String())
	}
	coll = x.bind(coll, "rng")
	if n.Tok == token.DEFINE {
		// Go < 1.22: one instance of each range variable per loop
		for _, e := range []ast.Expr{n.Key, n.Value} {
			if id, ok := e.(*ast.Ident); ok && id.Name != "_" {
				if o, ok := fr.info.Defs[id].(*types.Var); ok && x.eng.isCellVar(o) {
					x.declVar(st, o, x.zeroVal(o.Type()))
				}
			}
		}
	}
	iv := x.u.fresh("$i", "Int")
	x.u.fact("(= " + iv + " 0)")
	fr.loops = append(fr.loops, &loopCtx{i: iv, entry: st.clone()})
	defer func() { fr.loops = fr.loops[:len(fr.loops)-1] }()
	var visited0 string
	if isMapR {
		mt := ct.Underlying().(*types.Map)
		_, _, ks, _ := x.u.mapKeys(mt)
		visited0 = x.u.fresh("$visited", "(Array "+ks+" Bool)")
		q := "k$q" + fmt.Sprint(x.nextQ())
		x.u.fact(fmt.Sprintf("(forall ((%s %s)) (! (not (select %s %s)) :pattern ((select %s %s))))", q, ks, visited0, q, visited0, q))
		st.ghost["$visited"] = Val{T: visited0, S: "(Array " + ks + " Bool)"}
		dom, _, _, _ := x.u.mapKeys(mt)
		st.ghost["$dom0"] = Val{T: x.bind(Val{T: "(select " + x.getHeap(st, dom) + " " + coll.T + ")", S: "(Array " + ks + " Bool)"}, "$dom0").T, S: "(Array " + ks + " Bool)"}
	}
	fr.loopInvariants(st, ls, key, iv, "entry", n)
	ms := fr.collectMods([]ast.Node{n.Body}, nil)
	if ls != nil && ls.HavocAll {
		ms.heapAll = true
	}
	head := st.clone()
	// key/value variables are per-iteration
	var keyObj, valObj *types.Var
	if id, ok := n.Key.(*ast.Ident); ok && id.Name != "_" {
		keyObj, _ = fr.info.ObjectOf(id).(*types.Var)
	}
	if id, ok := n.Value.(*ast.Ident); ok && id.Name != "_" {
		valObj, _ = fr.info.ObjectOf(id).(*types.Var)
	}
	delete(ms.vars, keyObj)
	delete(ms.vars, valObj)
	fr.loopFrame(st, ms, key, "entry", n)
	fr.havocMods(head, ms)
	fr.loopFrame(head, ms, key, "assume", n)
	ih := x.u.fresh("$i", "Int")
	fr.loops[len(fr.loops)-1].i = ih
	var visitedH string
	if isMapR {
		vs := st.ghost["$visited"].S
		visitedH = x.u.fresh("$visited", vs)
		head.ghost["$visited"] = Val{T: visitedH, S: vs}
		x.u.gfact(head.pc, "(>= "+ih+" 0)")
	} else {
		x.u.gfact(head.pc, "(and (<= 0 "+ih+") (<= "+ih+" "+count+"))")
	}
	fr.loopInvariants(head, ls, key, ih, "assume", n)
	bodySt := head.clone()
	exitSt := head.clone()
	if isMapR {
		mt := ct.Underlying().(*types.Map)
		_, val, ks, _ := x.u.mapKeys(mt)
		more := x.u.fresh("more", "Bool")
		k := x.havocVal("k", mt.Key())
		dom0 := st.ghost["$dom0"].T
		// the key of this iteration: in the entry domain, not yet visited, still present
		bodySt.pc = x.namePC(x.and(head.pc, more))
		x.u.gfact(bodySt.pc, fmt.Sprintf("(and (select %s %s) (not (select %s %s)) %s)", dom0, k.T, visitedH, k.T, x.mapHas(head, coll, k)))
		exitSt.pc = x.namePC(x.and(head.pc, not(more)))
		// at exit every key of the entry domain that is still present has been visited
		q := "k$q" + fmt.Sprint(x.nextQ())
		x.u.gfact(exitSt.pc, fmt.Sprintf("(forall ((%s %s)) (=> (and (select %s %s) %s) (select %s %s)))", q, ks, dom0, q,
			x.mapHas(head, coll, Val{T: q, S: ks}), visitedH, q))
		if keyObj != nil {
			x.setVar(bodySt, keyObj, Val{T: k.T, S: k.S, Ty: keyObj.Type()})
		}
		if valObj != nil {
			v := Val{T: fmt.Sprintf("(select (select %s %s) %s)", x.getHeap(head, val), coll.T, k.T), S: x.u.sortOf(mt.Elem()), Ty: valObj.Type()}
			v = x.bind(v, valObj.Name())
			x.emitTypeFact(head, v)
			x.setVar(bodySt, valObj, v)
		}
		bodySt.ghost["$visited"] = Val{T: x.bind(Val{T: "(store " + visitedH + " " + k.T + " true)", S: head.ghost["$visited"].S}, "$visited").T, S: head.ghost["$visited"].S}
		bodySt.ghost["$key"] = k
	} else {
		bodySt.pc = x.namePC(x.and(head.pc, "(< "+ih+" "+count+")"))
		exitSt.pc = x.namePC(x.and(head.pc, "(>= "+ih+" "+count+")"))
		if keyObj != nil {
			x.setVar(bodySt, keyObj, Val{T: ih, S: "Int", Ty: keyObj.Type()})
		}
		if valObj != nil && coll.S != "Int" {
			v := x.bind(x.indexVal(head, coll, Val{T: ih, S: "Int"}, true), valObj.Name())
			v.Ty = valObj.Type()
			x.setVar(bodySt, valObj, v)
		}
	}
	bodySt0 := bodySt.clone()
	fr.loops[len(fr.loops)-1].head = bodySt0
	f := fr.block(bodySt, n.Body.List)
	out.rets = append(out.rets, f.rets...)
	ends := []*State{f.next}
	exits := []*State{exitSt}
	for _, c := range f.cont {
		if c.label == "" || c.label == label {
			ends = append(ends, c.st)
		} else {
			out.cont = append(out.cont, c)
		}
	}
	var brkStates []*State
	for _, b := range f.brk {
		if b.label == "" || b.label == label {
			exits = append(exits, b.st)
			brkStates = append(brkStates, b.st)
		} else {
			out.brk = append(out.brk, b)
		}
	}
	if bs := x.merge(cloneStates(brkStates)); bs != nil && ls != nil && len(ls.IterEnsures) > 0 {
		fr.iterEnsuresAt(bs, bodySt0, ls, key+":break", ih, n)
	}
	back := x.merge(ends)
	if back != nil {
		i2 := x.bind(Val{T: "(+ " + ih + " 1)", S: "Int"}, "$i").T
		fr.loopInvariants(back, ls, key, i2, "preserved", n)
		fr.loopFrame(back, ms, key, "preserved", n)
		fr.loopLockBalance(back, bodySt0, ms, key, n)
		fr.iterEnsures(back, bodySt0, ls, key, ih, n)
	}
	out.next = x.merge(exits)
	if out.next != nil {
		delete(out.next.ghost, "$key")
	}
	return out
}

func (fr *Frame) rangeUnsupported(st *State, n *ast.RangeStmt, label, what string) flow {
	fr.unsupported(st, n, what, nil)
	ms := fr.collectMods([]ast.Node{n.Body}, nil)
	fr.havocMods(st, ms)
	return flow{next: st}
}

// atHooks applies "at [key]: use lemma(args)" / assert clauses before statement s.
func (fr *Frame) atHooks(st *State, s ast.Stmt) {
	if fr.contract == nil || len(fr.contract.Ats) == 0 {
		return
	}
	var key string
	switch n := s.(type) {
	case *ast.IfStmt:
		key = fr.src(n.Cond)
	case *ast.ExprStmt:
		if _, isCall := n.X.(*ast.CallExpr); isCall {
			return // handled at the call itself (atCall)
		}
		key = fr.src(n.X)
	case *ast.AssignStmt:
		key = fr.src(n)
	case *ast.ReturnStmt:
		key = fr.src(n)
	case *ast.SendStmt:
		key = fr.src(n)
	case *ast.IncDecStmt:
		key = fr.src(n)
	case *ast.RangeStmt, *ast.ForStmt:
		key = fr.loopKey(s)
	default:
		return
	}
	fr.runAt(st, normKey(key), s)
}

// atCall applies at-clauses keyed by the source text of a call expression, before the call.
func (fr *Frame) atCall(st *State, c *ast.CallExpr) {
	if fr.contract == nil || len(fr.contract.Ats) == 0 {
		return
	}
	fr.runAt(st, normKey(fr.src(c)), c)
	// "at [call <callee expression>]": every call of that callee, whatever its arguments;
	// $arg0, $arg1, ... name the argument values
	fr.runAt(st, normKey("call "+fr.src(c.Fun)), c)
}

func (fr *Frame) runAt(st *State, key string, s ast.Node) {
	for _, as := range fr.contract.Ats {
		if normKey(as.Key) != key {
			continue
		}
		fr.x.atHits[as] = true
		for _, use := range as.Uses {
			fr.useLemma(st, use, s)
		}
		_, isAssign := s.(*ast.AssignStmt)
		for _, a := range as.Assumes {
			if isAssign {
				break // assumptions about an assigned / received value are applied after the statement (atAfter)
			}
			env := fr.specEnv(st)
			t, err := fr.evalClause(env, a)
			if err != nil {
				fr.x.u.oblige("at["+key+"]:assume-env:"+a.Label, "contract-stale", a.Src, fr.pos(s.Pos()), st.pc, "false").Clause = "contract-stale: " + err.Error()
				continue
			}
			fr.x.u.gfact(st.pc, t)
			fr.x.u.envAssumes = append(fr.x.u.envAssumes, fr.fnName+": at "+key+": "+a.Src)
		}
		for _, mk := range as.Marks {
			env := fr.specEnv(st)
			t, err := fr.evalClause(env, mk.Cond)
			if err != nil {
				fr.x.u.oblige("at["+key+"]:mark:"+mk.Label, "contract-stale", mk.Cond.Src, fr.pos(s.Pos()), st.pc, "false").Clause = "contract-stale: " + err.Error()
				continue
			}
			fr.x.u.oblige("at["+key+"]:mark:"+mk.Label, "assert", mk.Cond.Src, fr.pos(s.Pos()), st.pc, t)
			fr.x.u.gfact(st.pc, t)
			ref := env.Eval(mk.Ref)
			gk := "ghost.mark." + mk.Name
			fr.x.u.regHeap(gk, "(Array Int Bool)")
			fr.x.heapStore(st, gk, ref.T, "true")
		}
		if len(as.Asserts) > 0 && !fr.x.coverDone[as] {
			// reachability cover: the assertions below must not hold vacuously
			if fr.x.coverDone == nil {
				fr.x.coverDone = map[*AtSpec]bool{}
			}
			fr.x.coverDone[as] = true
			cov := fr.x.u.oblige("vacuity:at["+key+"]:reachable", "vacuity", "the statement the at-clause is keyed by is reachable", fr.pos(s.Pos()), st.pc, "true")
			cov.ExpectSat = true
		}
		for _, a := range as.Asserts {
			env := fr.specEnv(st)
			if c, isCall := s.(*ast.CallExpr); isCall && strings.HasPrefix(key, "call ") {
				tmp := st.clone()
				for i, arg := range c.Args {
					if _, isLit := ast.Unparen(arg).(*ast.FuncLit); isLit {
						continue
					}
					env.names[fmt.Sprintf("$arg%d", i)] = fr.expr(tmp, arg)
				}
			}
			t, err := fr.evalClause(env, a)
			lab := a.Label
			if err != nil {
				fr.x.u.oblige("at["+key+"]:assert:"+lab, "contract-stale", a.Src, fr.pos(s.Pos()), st.pc, "false").Clause = "contract-stale: " + err.Error()
				continue
			}
			fr.x.u.oblige("at["+key+"]:assert:"+lab, "assert", a.Src, fr.pos(s.Pos()), st.pc, t)
			fr.x.u.gfact(st.pc, t)
		}
	}
}

func (fr *Frame) useLemma(st *State, use *SCall, at ast.Node) {
	x := fr.x
	lem := x.eng.findLemma(fr.pkg, use.Fun)
	if lem == nil {
		x.u.oblige("use:"+use.Fun, "contract-stale", "unknown lemma", fr.pos(at.Pos()), st.pc, "false")
		return
	}
	env := fr.specEnv(st)
	sub := env.child()
	sub.pkg = x.eng.pkgs[lem.Pkg]
	defer func() {
		if r := recover(); r != nil {
			if se, ok := r.(specErr); ok {
				x.u.oblige("use:"+use.Fun, "contract-stale", se.msg, fr.pos(at.Pos()), st.pc, "false").Clause = "contract-stale: " + se.msg
				return
			}
			panic(r)
		}
	}()
	names := map[string]Val{}
	for i, p := range lem.Params {
		names[p.Name] = env.Eval(use.Args[i])
	}
	sub.names = names
	x.u.gfact(st.pc, lemmaInstance(sub, lem))
	x.usedContracts[lem.Pkg+"::lemma:"+lem.Name] = lem
}

// lemmaInstance is the implication requires ==> ensures of a lemma, instantiated in env.
// The lemma itself is proved as its own unit (it is in the cone of every unit using it).
func lemmaInstance(env *SpecEnv, lem *Contract) string {
	var rs, es []string
	for _, r := range lem.Requires {
		rs = append(rs, env.Bool(r.Expr))
	}
	for _, e := range lem.Ensures {
		es = append(es, env.Bool(e.Expr))
	}
	h := "true"
	if len(rs) > 0 {
		h = "(and " + strings.Join(rs, " ") + " true)"
	}
	return "(=> " + h + " (and " + strings.Join(es, " ") + " true))"
}

// atAfter applies "at [recv-stmt]: assume-env ..." clauses after a receive statement: these
// are assumptions about what the environment delivers on a channel and are listed as such.
func (fr *Frame) atAfter(st *State, s ast.Stmt) {
	if fr.contract == nil {
		return
	}
	key := normKey(fr.src(s))
	for _, as := range fr.contract.Ats {
		if normKey(as.Key) != key {
			continue
		}
		fr.x.atHits[as] = true
		for _, a := range as.Assumes {
			env := fr.specEnv(st)
			t, err := fr.evalClause(env, a)
			if err != nil {
				fr.x.u.oblige("at["+key+"]:assume-env:"+a.Label, "contract-stale", a.Src, fr.pos(s.Pos()), st.pc, "false").Clause = "contract-stale: " + err.Error()
				continue
			}
			fr.x.u.gfact(st.pc, t)
			fr.x.u.envAssumes = append(fr.x.u.envAssumes, fr.fnName+": at "+key+": "+a.Src)
		}
	}
}
