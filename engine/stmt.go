package main

import (
	"fmt"
	"go/ast"
	"go/token"
	"go/types"
	"math/big"
	"strings"
)

func newBig(v int64) *big.Int { return big.NewInt(v) }

func parseSMTInt(s string) *big.Int {
	neg := false
	s = strings.TrimSpace(s)
	if strings.HasPrefix(s, "(-") {
		neg = true
		s = strings.TrimSuffix(strings.TrimSpace(strings.TrimPrefix(s, "(-")), ")")
	}
	n := new(big.Int)
	n.SetString(strings.TrimSpace(s), 10)
	if neg {
		n.Neg(n)
	}
	return n
}

type retState struct {
	st   *State
	vals []Val
}

type jump struct {
	st    *State
	label string
}

type flow struct {
	next *State
	brk  []jump
	cont []jump
	rets []retState
}

func (f *flow) absorb(g flow) {
	f.brk = append(f.brk, g.brk...)
	f.cont = append(f.cont, g.cont...)
	f.rets = append(f.rets, g.rets...)
}

func (fr *Frame) block(st *State, stmts []ast.Stmt) flow {
	out := flow{}
	cur := st
	for _, s := range stmts {
		if cur == nil {
			break
		}
		f := fr.stmt(cur, s)
		out.absorb(f)
		cur = f.next
	}
	out.next = cur
	return out
}

func (fr *Frame) stmt(st *State, s ast.Stmt) flow {
	x := fr.x
	fr.atHooks(st, s)
	switch n := s.(type) {
	case *ast.BlockStmt:
		return fr.block(st, n.List)
	case *ast.ExprStmt:
		if c, ok := n.X.(*ast.CallExpr); ok {
			if id, ok := c.Fun.(*ast.Ident); ok && id.Name == "panic" {
				if _, isB := fr.info.ObjectOf(id).(*types.Builtin); isB {
					fr.safety(st, "panic", fr.src(c), c, "false")
					return flow{}
				}
			}
			fr.call(st, c)
			return flow{next: st}
		}
		fr.expr(st, n.X)
		return flow{next: st}
	case *ast.AssignStmt:
		fr.assignStmt(st, n)
		fr.atAfter(st, n)
		return flow{next: st}
	case *ast.IncDecStmt:
		v := fr.expr(st, n.X)
		op := "+"
		if n.Tok == token.DEC {
			op = "-"
		}
		nv := x.bind(Val{T: wrapTo("("+op+" "+v.T+" 1)", v.Ty), S: "Int", Ty: v.Ty}, "inc")
		fr.assign(st, n.X, nv)
		return flow{next: st}
	case *ast.DeclStmt:
		gd, ok := n.Decl.(*ast.GenDecl)
		if !ok || gd.Tok != token.VAR {
			return flow{next: st}
		}
		for _, sp := range gd.Specs {
			vs := sp.(*ast.ValueSpec)
			if len(vs.Values) == 1 && len(vs.Names) > 1 {
				vals := fr.multi(st, vs.Values[0], len(vs.Names))
				for i, nm := range vs.Names {
					if o, ok := fr.info.Defs[nm].(*types.Var); ok {
						x.declVar(st, o, vals[i])
					}
				}
				continue
			}
			for i, nm := range vs.Names {
				o, ok := fr.info.Defs[nm].(*types.Var)
				if !ok {
					continue
				}
				if i < len(vs.Values) {
					x.declVar(st, o, fr.exprAs(st, vs.Values[i], o.Type()))
				} else {
					x.declVar(st, o, x.zeroVal(o.Type()))
				}
			}
		}
		return flow{next: st}
	case *ast.IfStmt:
		return fr.ifStmt(st, n)
	case *ast.ForStmt:
		return fr.forStmt(st, n, "")
	case *ast.RangeStmt:
		return fr.rangeStmt(st, n, "")
	case *ast.LabeledStmt:
		switch in := n.Stmt.(type) {
		case *ast.ForStmt:
			return fr.forStmt(st, in, n.Label.Name)
		case *ast.RangeStmt:
			return fr.rangeStmt(st, in, n.Label.Name)
		}
		return fr.stmt(st, n.Stmt)
	case *ast.SwitchStmt:
		return fr.switchStmt(st, n)
	case *ast.TypeSwitchStmt:
		return fr.typeSwitchStmt(st, n)
	case *ast.SelectStmt:
		return fr.selectStmt(st, n)
	case *ast.ReturnStmt:
		return fr.returnStmt(st, n)
	case *ast.BranchStmt:
		lab := ""
		if n.Label != nil {
			lab = n.Label.Name
		}
		switch n.Tok {
		case token.BREAK:
			return flow{brk: []jump{{st, lab}}}
		case token.CONTINUE:
			return flow{cont: []jump{{st, lab}}}
		}
		fr.unsupported(st, n, "branch "+n.Tok.String(), nil)
		return flow{next: st}
	case *ast.DeferStmt:
		// registered on this path: a ghost flag guards the call when it is run at function exit
		known := false
		for _, d := range fr.defers {
			if d == n.Call {
				known = true
			}
		}
		if !known {
			fr.defers = append(fr.defers, n.Call)
		}
		st.ghost[deferKey(n.Call)] = Val{T: "true", S: "Bool"}
		return flow{next: st}
	case *ast.GoStmt:
		fr.goStmt(st, n)
		return flow{next: st}
	case *ast.SendStmt:
		ch := fr.expr(st, n.Chan)
		v := fr.expr(st, n.Value)
		fr.chanSend(st, n, ch, v, true)
		return flow{next: st}
	case *ast.EmptyStmt:
		return flow{next: st}
	}
	fr.unsupported(st, s, fmt.Sprintf("statement %T", s), nil)
	return flow{next: st}
}

func deferKey(c *ast.CallExpr) string { return fmt.Sprintf("defer:%d", c.Pos()) }

// runDefers executes the deferred calls registered on the paths merged into st, last first;
// a call runs only on the paths on which its defer statement was executed.
func (fr *Frame) runDefers(st *State) *State {
	x := fr.x
	for i := len(fr.defers) - 1; i >= 0; i-- {
		c := fr.defers[i]
		flag, ok := st.ghost[deferKey(c)]
		if !ok || flag.T == "false" {
			continue
		}
		if flag.T == "true" {
			fr.call(st, c)
			continue
		}
		yes := st.clone()
		yes.pc = x.namePC(x.and(st.pc, flag.T))
		no := st.clone()
		no.pc = x.namePC(x.and(st.pc, not(flag.T)))
		fr.call(yes, c)
		st = x.merge([]*State{yes, no})
	}
	return st
}

// chanSend records a send on the ghost channel log. blocking==true marks a bare send.
func (fr *Frame) chanSend(st *State, n ast.Node, ch, v Val, blocking bool) {
	x := fr.x
	el := chanElem(ch.Ty)
	if el == nil {
		el = v.Ty
	}
	nk, key, _ := x.chanKeys(el)
	if blocking && fr.contract != nil && fr.nonblocking() {
		fr.x.u.oblige("nonblocking:send:"+trunc(fr.src(n), 40), "nonblocking", "send may block", fr.pos(n.Pos()), st.pc, "false")
	}
	old := x.getHeap(st, nk)
	x.heapStore(st, nk, ch.T, "(+ (select "+old+" "+ch.T+") 1)")
	x.heapStore(st, key, ch.T, v.T)
}

func (fr *Frame) nonblocking() bool {
	for _, n := range fr.contract.Notes {
		if n == "nonblocking" {
			return true
		}
	}
	return false
}

func (fr *Frame) goStmt(st *State, n *ast.GoStmt) {
	// the spawned body is not executed here; record the site
	fr.x.u.havocSites = append(fr.x.u.havocSites, fmt.Sprintf("%s: go statement not executed (%s)", fr.pos(n.Pos()), trunc(fr.src(n.Call.Fun), 40)))
	// at-clauses keyed by the call apply (the arguments are evaluated here and now)
	fr.atCall(st, n.Call)
	// arguments are still evaluated
	for _, a := range n.Call.Args {
		fr.expr(st, a)
	}
}

func (fr *Frame) multi(st *State, e ast.Expr, n int) []Val {
	x := fr.x
	switch r := ast.Unparen(e).(type) {
	case *ast.CallExpr:
		vs := fr.call(st, r)
		for len(vs) < n {
			vs = append(vs, Val{T: "0", S: "Int"})
		}
		return vs
	case *ast.IndexExpr: // v, ok := m[k]
		m := fr.expr(st, r.X)
		k := fr.expr(st, r.Index)
		if m.Ty != nil && isMap(m.Ty) {
			fr.guardedMapAccess(st, r, m, "read")
			ok := x.bind(Val{T: x.mapHas(st, m, k), S: "Bool", Ty: types.Typ[types.Bool]}, "ok")
			return []Val{x.bind(x.indexVal(st, m, k, true), "mv"), ok}
		}
	case *ast.TypeAssertExpr:
		t := fr.typeOf(r.Type)
		if tt, ok := fr.info.Types[e]; ok {
			if tup, ok := tt.Type.(*types.Tuple); ok {
				t = tup.At(0).Type()
			}
		}
		fr.expr(st, r.X)
		v := fr.unsupported(st, r, "type assertion", t)
		ok := x.havocVal("ok", types.Typ[types.Bool])
		return []Val{v, ok}
	case *ast.UnaryExpr: // v, ok := <-ch
		if r.Op == token.ARROW {
			v := fr.expr(st, r)
			ok := x.havocVal("ok", types.Typ[types.Bool])
			return []Val{v, ok}
		}
	}
	out := []Val{fr.unsupported(st, e, "multi-value", nil)}
	for len(out) < n {
		out = append(out, Val{T: "0", S: "Int"})
	}
	return out
}

func (fr *Frame) assignStmt(st *State, n *ast.AssignStmt) {
	x := fr.x
	if n.Tok != token.ASSIGN && n.Tok != token.DEFINE {
		// op=
		l := fr.expr(st, n.Lhs[0])
		r := fr.expr(st, n.Rhs[0])
		ops := map[token.Token]token.Token{token.ADD_ASSIGN: token.ADD, token.SUB_ASSIGN: token.SUB, token.MUL_ASSIGN: token.MUL, token.QUO_ASSIGN: token.QUO, token.REM_ASSIGN: token.REM}
		op, ok := ops[n.Tok]
		if !ok {
			fr.assign(st, n.Lhs[0], fr.unsupported(st, n, "op-assign "+n.Tok.String(), l.Ty))
			return
		}
		var t string
		switch op {
		case token.ADD:
			if l.S == "GoString" {
				x.need("strcat")
				fr.assign(st, n.Lhs[0], x.bind(Val{T: "(strcat " + l.T + " " + r.T + ")", S: "GoString", Ty: l.Ty}, "cat"))
				return
			}
			t = "(+ " + l.T + " " + r.T + ")"
		case token.SUB:
			t = "(- " + l.T + " " + r.T + ")"
		case token.MUL:
			t = "(* " + l.T + " " + r.T + ")"
		case token.QUO:
			t = goDiv(l.T, r.T, l.Ty)
		case token.REM:
			t = goRem(l.T, r.T, l.Ty)
		}
		fr.assign(st, n.Lhs[0], x.bind(Val{T: wrapTo(t, l.Ty), S: "Int", Ty: l.Ty}, "opa"))
		return
	}
	var vals []Val
	if len(n.Rhs) == 1 && len(n.Lhs) > 1 {
		vals = fr.multi(st, n.Rhs[0], len(n.Lhs))
	} else {
		for i, r := range n.Rhs {
			vals = append(vals, fr.exprAs(st, r, fr.lhsType(n.Lhs[i])))
		}
	}
	for i, l := range n.Lhs {
		if i < len(vals) {
			fr.assign(st, l, vals[i])
		}
	}
}

func (fr *Frame) lhsType(l ast.Expr) types.Type {
	if id, ok := l.(*ast.Ident); ok {
		if id.Name == "_" {
			return nil
		}
		if o := fr.info.ObjectOf(id); o != nil {
			return o.Type()
		}
	}
	return fr.typeOf(l)
}

func (fr *Frame) assign(st *State, l ast.Expr, v Val) {
	x := fr.x
	switch n := ast.Unparen(l).(type) {
	case *ast.Ident:
		if n.Name == "_" {
			return
		}
		o, ok := fr.info.ObjectOf(n).(*types.Var)
		if !ok {
			return
		}
		if o.Pkg() != nil && o.Parent() == o.Pkg().Scope() {
			// assignment to a package-level variable
			fr.x.u.notes = append(fr.x.u.notes, "assigns package variable "+o.Name())
			nv := Val{T: v.T, S: v.S, Ty: o.Type()}
			x.globals[o] = nv
			x.assignedGlobals = append(x.assignedGlobals, o.Pkg().Name()+"."+o.Name())
			return
		}
		if fr.info.Defs[n] == o {
			x.declVar(st, o, v)
		} else {
			x.setVar(st, o, v)
		}
	case *ast.SelectorExpr:
		sel := fr.info.Selections[n]
		if sel == nil {
			// pkg.Var = ... : a package-level variable of an imported package
			if o, ok := fr.info.ObjectOf(n.Sel).(*types.Var); ok && o.Pkg() != nil && o.Parent() == o.Pkg().Scope() {
				fr.x.u.notes = append(fr.x.u.notes, "assigns package variable "+o.Pkg().Name()+"."+o.Name())
				x.globals[o] = Val{T: v.T, S: v.S, Ty: o.Type()}
				x.assignedGlobals = append(x.assignedGlobals, o.Pkg().Name()+"."+o.Name())
				return
			}
		}
		if sel == nil || sel.Kind() != types.FieldVal {
			fr.unsupported(st, n, "assignment target", nil)
			return
		}
		bt := fr.typeOf(n.X)
		base, isPtr := derefType(bt)
		idx := sel.Index()
		if len(idx) != 1 {
			fr.unsupported(st, n, "embedded field assignment", nil)
			return
		}
		f := base.Underlying().(*types.Struct).Field(idx[0])
		fr.aliasCheck(st, n, f, v)
		if isPtr {
			p := fr.expr(st, n.X)
			fr.safety(st, "nil-deref", fr.src(n.X), n, "(not (= "+p.T+" 0))")
			fr.guardedAccess(st, n, p, base, f, "write")
			x.writeField(st, p, base, f, v)
		} else {
			old := fr.expr(st, n.X)
			fr.assign(st, n.X, x.updStruct(base, old, f, v))
		}
	case *ast.IndexExpr:
		b := fr.expr(st, n.X)
		if b.Ty != nil && isMap(b.Ty) {
			k := fr.expr(st, n.Index)
			fr.safety(st, "nil-map-write", fr.src(n.X), n, "(not (= "+b.T+" 0))")
			fr.guardedMapAccess(st, n, b, "write")
			x.mapStore(st, b, k, v)
			return
		}
		i := fr.expr(st, n.Index)
		fr.boundsCheck(st, n, b, i)
		switch {
		case strings.HasPrefix(b.S, "Slice_"):
			id := sortId(x.u.sortOf(elemType(b.Ty)))
			nv := Val{T: fmt.Sprintf("(mk_%s (store (sarr_%s %s) %s %s) (slen_%s %s) false)", b.S, id, b.T, i.T, v.T, id, b.T), S: b.S, Ty: b.Ty}
			fr.assign(st, n.X, x.bind(nv, "sw"))
		default:
			if nn, ok := isFixedSort(b.S); ok {
				fr.assign(st, n.X, x.bind(Val{T: fmt.Sprintf("(upd%d %s %s %s)", nn, b.T, i.T, v.T), S: b.S, Ty: b.Ty}, "aw"))
			} else if strings.HasPrefix(b.S, "(Array Int ") {
				fr.assign(st, n.X, x.bind(Val{T: fmt.Sprintf("(store %s %s %s)", b.T, i.T, v.T), S: b.S, Ty: b.Ty}, "aw"))
			} else {
				fr.unsupported(st, n, "index assignment", nil)
			}
		}
	case *ast.StarExpr:
		p := fr.expr(st, n.X)
		fr.safety(st, "nil-deref", fr.src(n.X), n, "(not (= "+p.T+" 0))")
		el, _ := derefType(p.Ty)
		if _, ok := el.Underlying().(*types.Struct); ok && v.S != "Time" {
			x.writeStruct(st, p, el, v)
		} else {
			x.writeCell(st, p, v)
		}
	default:
		fr.unsupported(st, l, "assignment target", nil)
	}
}

func (fr *Frame) ifStmt(st *State, n *ast.IfStmt) flow {
	x := fr.x
	out := flow{}
	if n.Init != nil {
		f := fr.stmt(st, n.Init)
		out.absorb(f)
		if f.next == nil {
			return out
		}
		st = f.next
	}
	c := fr.expr(st, n.Cond)
	thenSt := st.clone()
	thenSt.pc = x.namePC(x.and(st.pc, c.T))
	elseSt := st.clone()
	elseSt.pc = x.namePC(x.and(st.pc, not(c.T)))
	ft := fr.block(thenSt, n.Body.List)
	out.absorb(ft)
	var fe flow
	if n.Else != nil {
		fe = fr.stmt(elseSt, n.Else)
		out.absorb(fe)
	} else {
		fe = flow{next: elseSt}
	}
	out.next = x.merge([]*State{ft.next, fe.next})
	return out
}

func (fr *Frame) returnStmt(st *State, n *ast.ReturnStmt) flow {
	var vals []Val
	res := fr.sig.Results()
	if len(n.Results) == 0 {
		for _, nv := range fr.named {
			gv, _ := fr.x.getVar(st, nv)
			vals = append(vals, gv)
		}
	} else if len(n.Results) == 1 && res.Len() > 1 {
		vals = fr.multi(st, n.Results[0], res.Len())
	} else {
		for i, r := range n.Results {
			vals = append(vals, fr.exprAs(st, r, res.At(i).Type()))
		}
	}
	for i := range vals {
		if i < res.Len() {
			vals[i].Ty = res.At(i).Type()
		}
	}
	return flow{rets: []retState{{st, vals}}}
}

func (fr *Frame) switchStmt(st *State, n *ast.SwitchStmt) flow {
	x := fr.x
	out := flow{}
	if n.Init != nil {
		f := fr.stmt(st, n.Init)
		out.absorb(f)
		st = f.next
		if st == nil {
			return out
		}
	}
	var tag *Val
	if n.Tag != nil {
		v := fr.expr(st, n.Tag)
		tag = &v
	}
	var ends []*State
	remaining := st.clone() // state in which no earlier case matched
	var defaultClause *ast.CaseClause
	for _, c := range n.Body.List {
		cc := c.(*ast.CaseClause)
		if cc.List == nil {
			defaultClause = cc
			continue
		}
		var conds []string
		for _, e := range cc.List {
			ev := fr.expr(remaining, e)
			if tag != nil {
				conds = append(conds, fr.goEqual(remaining, e, *tag, ev))
			} else {
				conds = append(conds, ev.T)
			}
		}
		cond := conds[0]
		if len(conds) > 1 {
			cond = "(or " + strings.Join(conds, " ") + ")"
		}
		cs := remaining.clone()
		cs.pc = x.namePC(x.and(remaining.pc, cond))
		f := fr.block(cs, cc.Body)
		ends = append(ends, f.next)
		for _, b := range f.brk {
			if b.label == "" {
				ends = append(ends, b.st)
			} else {
				out.brk = append(out.brk, b)
			}
		}
		out.cont = append(out.cont, f.cont...)
		out.rets = append(out.rets, f.rets...)
		nr := remaining.clone()
		nr.pc = x.namePC(x.and(remaining.pc, not(cond)))
		remaining = nr
	}
	if defaultClause != nil {
		f := fr.block(remaining, defaultClause.Body)
		ends = append(ends, f.next)
		for _, b := range f.brk {
			if b.label == "" {
				ends = append(ends, b.st)
			} else {
				out.brk = append(out.brk, b)
			}
		}
		out.cont = append(out.cont, f.cont...)
		out.rets = append(out.rets, f.rets...)
	} else {
		ends = append(ends, remaining)
	}
	out.next = x.merge(ends)
	return out
}

func (fr *Frame) typeSwitchStmt(st *State, n *ast.TypeSwitchStmt) flow {
	x := fr.x
	out := flow{}
	if n.Init != nil {
		f := fr.stmt(st, n.Init)
		out.absorb(f)
		st = f.next
	}
	// evaluate the switched expression
	var subject ast.Expr
	switch a := n.Assign.(type) {
	case *ast.AssignStmt:
		subject = a.Rhs[0].(*ast.TypeAssertExpr).X
	case *ast.ExprStmt:
		subject = a.X.(*ast.TypeAssertExpr).X
	}
	sv := fr.expr(st, subject)
	x.need("dyntype")
	var ends []*State
	remaining := st.clone()
	var def *ast.CaseClause
	for _, c := range n.Body.List {
		cc := c.(*ast.CaseClause)
		if cc.List == nil {
			def = cc
			continue
		}
		var conds []string
		var single types.Type
		for _, e := range cc.List {
			t := fr.typeOf(e)
			if t == nil { // nil case
				conds = append(conds, "(= "+sv.T+" 0)")
				continue
			}
			single = t
			conds = append(conds, fmt.Sprintf("(and (not (= %s 0)) (= (dyntype %s) %d))", sv.T, sv.T, x.eng.typeTag(t)))
		}
		cond := conds[0]
		if len(conds) > 1 {
			cond = "(or " + strings.Join(conds, " ") + ")"
		}
		cs := remaining.clone()
		cs.pc = x.namePC(x.and(remaining.pc, cond))
		if o := fr.info.Implicits[cc]; o != nil {
			if len(cc.List) == 1 && single != nil && x.u.sortOf(single) == "Int" {
				x.declVar(cs, o.(*types.Var), Val{T: sv.T, S: "Int", Ty: single})
			} else {
				x.declVar(cs, o.(*types.Var), x.havocVal(o.Name(), o.Type()))
			}
		}
		f := fr.block(cs, cc.Body)
		ends = append(ends, f.next)
		for _, b := range f.brk {
			if b.label == "" {
				ends = append(ends, b.st)
			} else {
				out.brk = append(out.brk, b)
			}
		}
		out.cont = append(out.cont, f.cont...)
		out.rets = append(out.rets, f.rets...)
		nr := remaining.clone()
		nr.pc = x.namePC(x.and(remaining.pc, not(cond)))
		remaining = nr
	}
	if def != nil {
		if o := fr.info.Implicits[def]; o != nil {
			x.declVar(remaining, o.(*types.Var), sv)
		}
		f := fr.block(remaining, def.Body)
		ends = append(ends, f.next)
		for _, b := range f.brk {
			if b.label == "" {
				ends = append(ends, b.st)
			} else {
				out.brk = append(out.brk, b)
			}
		}
		out.cont = append(out.cont, f.cont...)
		out.rets = append(out.rets, f.rets...)
	} else {
		ends = append(ends, remaining)
	}
	out.next = x.merge(ends)
	return out
}

// selectStmt: nondeterministic choice among ready cases; default only when none is ready.
func (fr *Frame) selectStmt(st *State, n *ast.SelectStmt) flow {
	x := fr.x
	out := flow{}
	var ends []*State
	var readies []string
	type cs struct {
		cc    *ast.CommClause
		ready string
	}
	var cases []cs
	var def *ast.CommClause
	for _, c := range n.Body.List {
		cc := c.(*ast.CommClause)
		if cc.Comm == nil {
			def = cc
			continue
		}
		r := x.u.fresh("ready", "Bool")
		readies = append(readies, r)
		cases = append(cases, cs{cc, r})
	}
	choice := x.u.fresh("choice", "Int")
	for i, c := range cases {
		s := st.clone()
		s.pc = x.namePC(x.and(st.pc, "(and "+c.ready+" (= "+choice+" "+fmt.Sprint(i)+"))"))
		switch cm := c.cc.Comm.(type) {
		case *ast.SendStmt:
			fr.atHooks(s, cm)
			ch := fr.expr(s, cm.Chan)
			v := fr.expr(s, cm.Value)
			fr.chanSend(s, cm, ch, v, false)
		case *ast.ExprStmt:
			fr.expr(s, cm.X)
		case *ast.AssignStmt:
			fr.atHooks(s, cm)
			fr.assignStmt(s, cm)
			fr.atAfter(s, cm)
		}
		f := fr.block(s, c.cc.Body)
		ends = append(ends, f.next)
		for _, b := range f.brk {
			if b.label == "" {
				ends = append(ends, b.st)
			} else {
				out.brk = append(out.brk, b)
			}
		}
		out.cont = append(out.cont, f.cont...)
		out.rets = append(out.rets, f.rets...)
	}
	none := "true"
	if len(readies) > 0 {
		none = "(not (or " + strings.Join(readies, " ") + " false))"
	}
	if def != nil {
		s := st.clone()
		s.pc = x.namePC(x.and(st.pc, none))
		f := fr.block(s, def.Body)
		ends = append(ends, f.next)
		for _, b := range f.brk {
			if b.label == "" {
				ends = append(ends, b.st)
			} else {
				out.brk = append(out.brk, b)
			}
		}
		out.cont = append(out.cont, f.cont...)
		out.rets = append(out.rets, f.rets...)
	} else if fr.contract != nil && fr.nonblocking() && selectHasSend(n) {
		x.u.oblige("nonblocking:select", "nonblocking", "select without default may block", fr.pos(n.Pos()), st.pc, "false")
	}
	out.next = x.merge(ends)
	return out
}

func selectHasSend(n *ast.SelectStmt) bool {
	for _, c := range n.Body.List {
		if cc, ok := c.(*ast.CommClause); ok {
			if _, isSend := cc.Comm.(*ast.SendStmt); isSend {
				return true
			}
		}
	}
	return false
}
