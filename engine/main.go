package main

import (
	"encoding/json"
	"flag"
	"fmt"
	"go/token"
	"os"
	"path/filepath"
	"runtime"
	"sync"
	"sort"
	"strings"
	"time"
)

type knownFinding struct {
	Prop       string
	Obligation string
	Text       string
}

func readKnownFindings(path string) []knownFinding {
	data, err := os.ReadFile(path)
	if err != nil {
		return nil
	}
	var out []knownFinding
	for _, l := range strings.Split(string(data), "\n") {
		l = strings.TrimSpace(l)
		if !strings.HasPrefix(l, "finding:") {
			continue
		}
		kf := knownFinding{}
		rest := strings.TrimSpace(strings.TrimPrefix(l, "finding:"))
		desc := ""
		if j := strings.Index(rest, " :: "); j >= 0 {
			desc = rest[j+4:]
			rest = rest[:j]
		}
		if j := strings.Index(rest, "obligation="); j >= 0 {
			kf.Obligation = strings.TrimSpace(rest[j+len("obligation="):])
			rest = rest[:j]
		}
		for _, f := range strings.Fields(rest) {
			if strings.HasPrefix(f, "property=") {
				kf.Prop = strings.TrimPrefix(f, "property=")
			}
		}
		kf.Text = desc
		out = append(out, kf)
	}
	return out
}

func main() {
	if len(os.Args) < 2 {
		fmt.Println("usage: govc check <PROP> <quick|thorough> | govc unit <pkg> <key>")
		os.Exit(2)
	}
	switch os.Args[1] {
	case "check":
		fs := flag.NewFlagSet("check", flag.ExitOnError)
		repo := fs.String("repo", "/repo", "repository root")
		verif := fs.String("verif", "/verif", "verif root")
		keep := fs.Bool("keep", false, "keep smt files")
		only := fs.String("only", "", "only units whose name contains this")
		outDir := fs.String("out", "", "evidence directory (default <verif>/evidence)")
		verbose := fs.Bool("v", false, "verbose")
		fs.Parse(os.Args[2:])
		args := fs.Args()
		if len(args) < 1 {
			fmt.Println("usage: govc check [flags] <PROP> [tier]")
			os.Exit(2)
		}
		tier := "quick"
		if len(args) > 1 {
			tier = args[1]
		}
		evidenceDir = *outDir
		if evidenceDir == "" && *only != "" {
			// a partial run (-only) is a debugging aid: it must not overwrite the property's evidence
			evidenceDir = filepath.Join(os.TempDir(), "govc-partial-evidence")
		}
		if evidenceDir == "" {
			evidenceDir = filepath.Join(*verif, "evidence")
		}
		os.Exit(runCheck(*repo, *verif, args[0], tier, *keep, *only, *verbose))
	case "overlay":
		// govc overlay <dir>: writes the p2p.Run-stripped overlay used for replays into <dir>
		dir := os.Args[2]
		os.MkdirAll(dir, 0o755)
		eng := &Engine{fset: token.NewFileSet(), repo: "/repo", verifDir: "/verif"}
		if len(os.Args) > 3 {
			eng.repo = os.Args[3]
		}
		p := stripP2P(eng, dir)
		ov := map[string]map[string]string{"Replace": {filepath.Join(eng.repo, "node/pkg/p2p/p2p.go"): p}}
		b, _ := json.Marshal(ov)
		os.WriteFile(filepath.Join(dir, "overlay.json"), b, 0o644)
		fmt.Println(filepath.Join(dir, "overlay.json"))
	default:
		fmt.Println("unknown command")
		os.Exit(2)
	}
}

var evidenceDir string

type oblReport struct {
	Name    string  `json:"obligation"`
	Kind    string  `json:"kind"`
	Status  string  `json:"status"`
	Backend string  `json:"backend,omitempty"`
	T       float64 `json:"t"`
	Clause  string  `json:"clause,omitempty"`
	Where   string  `json:"where,omitempty"`
}

func runCheck(repo, verif, prop, tier string, keep bool, only string, verbose bool) int {
	t0 := time.Now()
	eng := &Engine{fset: token.NewFileSet(), repo: repo, verifDir: verif, typeTags: map[string]int{}}
	fail := func(msg string) int {
		// machinery failure: reported as a violation without input, never as a pass
		replay := filepath.Join(evidenceDir, "replay", prop+"-engine.json")
		os.MkdirAll(filepath.Dir(replay), 0o755)
		b, _ := json.MarshalIndent(map[string]string{"property": prop, "obligation": "engine", "error": msg}, "", " ")
		os.WriteFile(replay, b, 0o644)
		fmt.Printf("ENGINE-ERROR: %s\n", msg)
		fmt.Printf("VIOLATION property=%s replay=%s no-failing-input-found\n", prop, replay)
		return 1
	}
	if err := eng.loadPrelude(filepath.Join(verif, "specs", "prelude.smt2")); err != nil {
		return fail(err.Error())
	}
	eng.loadXlang()
	if err := eng.readAllContracts(); err != nil {
		return fail("contract-stale: " + err.Error())
	}
	var selected []*Contract
	pkgSet := map[string]bool{}
	for _, c := range eng.allBlocks {
		for _, p := range c.Props {
			if p == prop {
				selected = append(selected, c)
				pkgSet[c.Pkg] = true
			}
		}
	}
	if len(selected) == 0 {
		return fail("no contract block is tagged with " + prop)
	}
	var pkgs []string
	for p := range pkgSet {
		pkgs = append(pkgs, p)
	}
	sort.Strings(pkgs)
	tl := time.Now()
	if err := eng.loadPackages(pkgs); err != nil {
		return fail("package load: " + err.Error())
	}
	loadS := time.Since(tl).Seconds()
	ownErr := 0
	for _, er := range eng.loadErrs {
		for _, p := range pkgs {
			if strings.HasPrefix(er, p+":") {
				ownErr++
				if verbose {
					fmt.Println("load error:", er)
				}
			}
		}
	}
	if ownErr > 0 {
		return fail(fmt.Sprintf("%d type errors in packages under contract (first: %s)", ownErr, eng.loadErrs[0]))
	}
	// verify selected units and the cone of contracts they rely on
	done := map[string]bool{}
	depAssumed := map[string]bool{}
	var results []*UnitResult
	queue := append([]*Contract{}, selected...)
	for len(queue) > 0 {
		c := queue[0]
		queue = queue[1:]
		id := c.Pkg + "::" + c.Key()
		if c.Kind == "pred" || done[id] {
			continue
		}
		done[id] = true
		if only != "" && !strings.Contains(id, only) {
			continue
		}
		if eng.pkgs[c.Pkg] == nil {
			continue
		}
		if pk := eng.pkgs[c.Pkg]; len(pk.GoFiles) > 0 && !strings.HasPrefix(pk.GoFiles[0], eng.repo) {
			for _, sc := range selected {
				if sc == c {
					// a unit the property itself names must be verified on /repo's source
					return fail("contract-stale: " + shortPkg(c.Pkg) + "." + c.Key() + " is tagged with " + prop + " but its package resolves to the module cache (" + filepath.Dir(pk.GoFiles[0]) + "): the units of one property have to live in one module")
				}
			}
			// the package under contract is resolved from the module cache (a pinned release of
			// the node module used by another module), not from /repo: its contracts are assumed
			depAssumed["contract of "+shortPkg(c.Pkg)+"."+c.Key()+" assumed for the module-cache copy "+filepath.Dir(pk.GoFiles[0])+" (the same contract is verified on /repo's copy by the properties that own it)"] = true
			continue
		}
		r := eng.verifyContract(c)
		results = append(results, r)
		for _, cc := range c.Closures {
			cr := eng.verifyClosure(c, cc)
			results = append(results, cr)
			for _, k := range sortedContracts(cr.Exec.usedContracts) {
				if uc := cr.Exec.usedContracts[k]; !uc.Trusted {
					queue = append(queue, uc)
				}
			}
		}
		for _, k := range sortedContracts(r.Exec.usedContracts) {
			uc := r.Exec.usedContracts[k]
			if !uc.Trusted {
				queue = append(queue, uc)
			}
		}
	}
	// coverage guard: the units this property's check is known to consist of (units/<prop>.txt,
	// committed; regenerate with GOVC_RECORD_UNITS=1) must all have been verified - a unit that
	// silently drops out (renamed function, lost tag, package resolving elsewhere) is a failure
	if only == "" {
		have := map[string]bool{}
		var names []string
		for _, r := range results {
			have[r.Unit.Name] = true
			names = append(names, r.Unit.Name)
		}
		sort.Strings(names)
		uf := filepath.Join(verif, "units", prop+".txt")
		if os.Getenv("GOVC_RECORD_UNITS") != "" {
			os.MkdirAll(filepath.Dir(uf), 0o755)
			os.WriteFile(uf, []byte(strings.Join(names, "\n")+"\n"), 0o644)
		} else if data, err := os.ReadFile(uf); err == nil {
			for _, want := range strings.Split(strings.TrimSpace(string(data)), "\n") {
				if want != "" && !have[want] {
					u := newUnit(eng, want)
					o := u.oblige("unit-verified", "contract-stale", "unit "+want+" is part of this property's check", uf, "true", "false")
					o.Clause = "contract-stale: unit " + want + " was not verified in this run (function or contract gone, tag lost, or package resolved outside /repo)"
					results = append(results, &UnitResult{Unit: u, Contract: &Contract{File: uf}, Exec: &Exec{libUsed: map[string]bool{}, usedContracts: map[string]*Contract{}}})
				}
			}
		}
	}
	// collect obligations
	var obls []*Obligation
	for _, r := range results {
		if r.Err != "" {
			o := r.Unit.oblige("contract", "contract-stale", r.Err, r.Contract.File, "true", "false")
			o.Clause = r.Err
		}
		for _, o := range r.Unit.obls {
			if o.Kind == "safe" && len(r.Contract.NoPanicProps) > 0 {
				keep := false
				for _, pp := range r.Contract.NoPanicProps {
					if pp == prop {
						keep = true
					}
				}
				if !keep {
					continue
				}
			}
			obls = append(obls, o)
		}
	}
	tmp, _ := os.MkdirTemp("", "govc-"+prop+"-")
	if keep {
		fmt.Println("smt dir:", tmp)
	} else {
		defer os.RemoveAll(tmp)
	}
	timeout := 20
	if tier == "thorough" {
		timeout = 120
	}
	workers := runtime.NumCPU() / 2
	if workers < 2 {
		workers = 2
	}
	parallelDo(len(obls), workers, func(i int) {
		o := obls[i]
		if o.Kind == "contract-stale" {
			o.Result = SolveResult{Status: "stale"}
			return
		}
		o.Script = o.unit.script(o)
		to := timeout
		if o.ExpectSat {
			// cover queries over quantified facts rarely come back "sat"; what they guard
			// against is "unsat" (contradictory assumptions), which is found quickly
			to = 3
			if tier == "thorough" {
				to = 15
			}
		}
		if o.Kind == "nonblocking" && to > 5 {
			to = 5 // goal is "false": either the path is quickly infeasible or the send is reachable
		}
		o.Result = solveScript(tmp, fmt.Sprintf("o%04d_%s", i, trunc2(sanitize(o.Name), 80)), o.Script, to, nil)
	})
	// an obligation that ran into the time limit (rather than coming back "unknown" at once)
	// gets one more run with a longer limit: a loaded machine must not turn into an alarm
	var retry []int
	for i, o := range obls {
		if !o.ExpectSat && o.Result.Status == "unknown" && o.Kind != "nonblocking" && o.Kind != "contract-stale" && o.Result.Time >= float64(timeout)-1.5 {
			retry = append(retry, i)
		}
	}
	if len(retry) > 0 && len(retry) <= 24 {
		parallelDo(len(retry), workers, func(k int) {
			o := obls[retry[k]]
			r := solveScript(tmp, fmt.Sprintf("r%04d_%s", retry[k], trunc2(sanitize(o.Name), 80)), o.Script, timeout*3, nil)
			if r.Status == "unsat" || r.Status == "sat" {
				o.Result = r
			}
		})
	}
	// thorough tier: every discharged obligation is put to an independent second solver
	// (cvc5 against the z3 family and vice versa) and to z3 with two more random seeds;
	// "unknown" is recorded, a disagreement (sat against unsat) fails the obligation
	confirmed, secondUnknown, seedRuns, seedUnsat := 0, 0, 0, 0
	var disagreements []string
	if tier == "thorough" {
		var mu sync.Mutex
		parallelDo(len(obls), workers, func(i int) {
			o := obls[i]
			if o.ExpectSat || o.Result.Status != "unsat" {
				return
			}
			other := "cvc5"
			if o.Result.Backend == "cvc5" {
				other = "z3-new"
			}
			r := confirmWith(tmp, fmt.Sprintf("c%04d", i), o.Script, other, 0, 30)
			s1 := confirmWith(tmp, fmt.Sprintf("s%04da", i), o.Script, "z3-new", 1+seedEnv(), 30)
			s2 := confirmWith(tmp, fmt.Sprintf("s%04db", i), o.Script, "z3", 2+seedEnv(), 30)
			mu.Lock()
			defer mu.Unlock()
			switch r {
			case "unsat":
				confirmed++
			case "unknown":
				secondUnknown++
			case "sat":
				disagreements = append(disagreements, o.Name+": "+o.Result.Backend+" unsat, "+other+" sat")
				o.Result.Status = "disagreement"
			}
			for _, sr := range []string{s1, s2} {
				seedRuns++
				if sr == "unsat" {
					seedUnsat++
				}
				if sr == "sat" {
					disagreements = append(disagreements, o.Name+": sat under another random seed")
					o.Result.Status = "disagreement"
				}
			}
		})
	}
	// classify
	known := readKnownFindings(filepath.Join(verif, "known-findings.txt"))
	var reports []oblReport
	byBackend := map[string]int{}
	solverTime := 0.0
	nObl, nDis := 0, 0
	vacChecks := 0
	var failed []*Obligation
	for _, o := range obls {
		st := o.Result.Status
		rep := oblReport{Name: o.Name, Kind: o.Kind, Status: st, Backend: o.Result.Backend, T: round3(o.Result.Time), Clause: o.Clause, Where: o.Where}
		solverTime += o.Result.Time
		if o.ExpectSat {
			vacChecks++
			if st == "unsat" {
				rep.Status = "VACUOUS"
				failed = append(failed, o)
			}
			reports = append(reports, rep)
			continue
		}
		nObl++
		if st == "unsat" {
			nDis++
			byBackend[o.Result.Backend]++
		} else {
			failed = append(failed, o)
		}
		reports = append(reports, rep)
	}
	// report
	violations := 0
	var knownHit []string
	exit := 0
	replayDir := filepath.Join(evidenceDir, "replay")
	for _, o := range failed {
		isKnown := false
		for _, k := range known {
			if k.Prop == prop && k.Obligation == o.Name {
				fmt.Printf("KNOWN-FINDING: property=%s %s (%s)\n", prop, k.Text, o.Name)
				knownHit = append(knownHit, o.Name)
				isKnown = true
			}
		}
		if isKnown {
			continue
		}
		violations++
		exit = 1
		os.MkdirAll(replayDir, 0o755)
		rp := filepath.Join(replayDir, prop+"-"+sanitize(o.Name)+".json")
		suffix := writeReplay(eng, o, prop, rp, tmp)
		fmt.Printf("FAILED %s [%s] %s :: %s\n", o.Name, o.Result.Status, o.Where, trunc(o.Clause, 100))
		fmt.Printf("VIOLATION property=%s replay=%s%s\n", prop, rp, suffix)
	}
	if verbose {
		for _, r := range reports {
			fmt.Printf("  %-8s %-7s %6.2fs %s\n", r.Status, r.Backend, r.T, r.Name)
		}
	}
	// evidence
	var units, assumptions, havoc []string
	trusted := map[string]bool{}
	for _, r := range results {
		units = append(units, r.Unit.Name)
		for k := range r.Exec.libUsed {
			trusted["assumed library contract: "+k] = true
		}
		for _, k := range sortedContracts(r.Exec.usedContracts) {
			if r.Exec.usedContracts[k].Trusted {
				trusted["assume-contract: "+k] = true
			}
		}
		for _, h := range r.Unit.havocSites {
			havoc = append(havoc, r.Unit.Name+": "+h)
		}
		for _, b := range r.Unit.preludeBlocks {
			trusted["prelude block: "+b] = true
		}
		for _, a := range r.Unit.envAssumes {
			trusted["environment assumption: "+a] = true
		}
	}
	for k := range depAssumed {
		trusted[k] = true
	}
	for k := range trusted {
		assumptions = append(assumptions, k)
	}
	sort.Strings(assumptions)
	assumptions = append(assumptions,
		"govc VC generator (this engine) is trusted",
		"Go int is 64-bit; integer arithmetic modelled as mathematical integers with explicit wrap-around at every operation and conversion",
		"slices are value sequences: aliasing between slices is not modelled; capacity is not modelled; slice lengths are at most 2^48",
		"calls into logging/metrics/formatting packages return arbitrary values and do not touch modelled state",
		"goroutine bodies started with `go` are not executed; scheduling is not modelled",
		"pointer values received from channels are non-nil")
	var samples []oblReport
	for i, r := range reports {
		if i < 400 {
			samples = append(samples, r)
		}
	}
	ev := map[string]interface{}{
		"property_id": prop, "tier": tier, "seed": seedEnv(), "level": "proof", "wall_s": round3(time.Since(t0).Seconds()),
		"violations": violations,
		"coverage": map[string]interface{}{
			"obligations": nObl - len(knownHit), "discharged": nDis, "known_finding_obligations": len(knownHit),
			"checker_cmd":  fmt.Sprintf("./check %s %s  # govc: go/packages(source,-tags=verif) -> WP over typed AST -> SMT-LIB per obligation | race{z3-new 5.1.0, z3 4.8.12, cvc5 1.0 --enum-inst}", prop, tier),
			"trusted_base": []string{"govc VC generator", "go/types (go1.23.5) + x/tools v0.29.0 go/packages", "z3 4.8.12", "z3 5.1.0", "cvc5 1.0"},
			"functions_under_contract": units, "by_backend": byBackend, "solver_time_s": round3(solverTime),
			"package_load_s": round3(loadS), "samples": samples, "havoc_sites": havoc,
			"vacuity_checks": vacChecks, "known_findings_hit": knownHit, "bounded": []string{},
			"undischarged": failedNames(failed),
			"second_solver_confirmed": confirmed, "second_solver_unknown": secondUnknown, "solver_disagreements": disagreements,
			"random_seed_runs": seedRuns, "random_seed_runs_unsat": seedUnsat,
		},
		"assumptions": assumptions,
	}
	os.MkdirAll(evidenceDir, 0o755)
	b, _ := json.MarshalIndent(ev, "", " ")
	os.WriteFile(filepath.Join(evidenceDir, prop+".json"), b, 0o644)
	fmt.Printf("%s %s: units=%d obligations=%d discharged=%d vacuity=%d known=%d violations=%d load=%.1fs wall=%.1fs\n",
		prop, tier, len(results), nObl, nDis, vacChecks, len(knownHit), violations, loadS, time.Since(t0).Seconds())
	return exit
}

func failedNames(f []*Obligation) []string {
	out := []string{}
	for _, o := range f {
		out = append(out, o.Name+" ["+o.Result.Status+"]")
	}
	return out
}

func round3(f float64) float64 { return float64(int(f*1000)) / 1000 }

func seedEnv() int {
	var s int
	fmt.Sscan(os.Getenv("VERIF_SEED"), &s)
	return s
}

// writeReplay writes the replay file of a failed obligation. Returns the suffix for the
// VIOLATION line (" no-failing-input-found" when no input could be confirmed on the real code).
func writeReplay(eng *Engine, o *Obligation, prop, path, tmp string) string {
	rec := map[string]interface{}{
		"property": prop, "obligation": o.Name, "kind": o.Kind, "clause": o.Clause, "where": o.Where,
		"solver_status": o.Result.Status, "solver_backend": o.Result.Backend, "all_backends": o.Result.All,
		"solver_output": trunc2(o.Result.Output, 4000),
	}
	suffix := " no-failing-input-found"
	if o.Result.Status == "sat" || o.Result.Status == "unknown" {
		if ok, info := tryReplay(eng, o, tmp); info != nil {
			rec["replay"] = info
			if ok {
				suffix = ""
			}
		}
	}
	b, _ := json.MarshalIndent(rec, "", " ")
	os.WriteFile(path, b, 0o644)
	return suffix
}

func trunc2(s string, n int) string {
	if len(s) > n {
		return s[:n] + "…"
	}
	return s
}
