package main

import (
	"fmt"
	"go/ast"
	"go/token"
	"go/types"
	"strings"
)

func (fr *Frame) typeOf(e ast.Expr) types.Type {
	if tv, ok := fr.info.Types[e]; ok {
		return tv.Type
	}
	if id, ok := e.(*ast.Ident); ok {
		if o := fr.info.ObjectOf(id); o != nil {
			return o.Type()
		}
	}
	return nil
}

func (fr *Frame) expr(st *State, e ast.Expr) Val {
	x := fr.x
	if tv, ok := fr.info.Types[e]; ok && tv.Value != nil {
		return x.constVal(tv.Value, tv.Type)
	}
	switch n := e.(type) {
	case *ast.ParenExpr:
		return fr.expr(st, n.X)
	case *ast.BasicLit:
		return fr.unsupported(st, n, "literal", fr.typeOf(e))
	case *ast.Ident:
		return fr.ident(st, n)
	case *ast.UnaryExpr:
		return fr.unary(st, n)
	case *ast.BinaryExpr:
		return fr.binary(st, n)
	case *ast.CallExpr:
		vs := fr.call(st, n)
		if len(vs) == 0 {
			return Val{T: "0", S: "Int"}
		}
		return vs[0]
	case *ast.SelectorExpr:
		return fr.selector(st, n)
	case *ast.IndexExpr:
		b := fr.expr(st, n.X)
		if b.Ty != nil && isMap(b.Ty) {
			k := fr.expr(st, n.Index)
			fr.guardedMapAccess(st, n, b, "read")
			return x.bind(x.indexVal(st, b, k, true), "mv")
		}
		i := fr.expr(st, n.Index)
		fr.boundsCheck(st, n, b, i)
		return x.bind(x.indexVal(st, b, i, true), "ix")
	case *ast.SliceExpr:
		b := fr.expr(st, n.X)
		if pt, ok := b.Ty.Underlying().(*types.Pointer); ok {
			_ = pt
			b = x.deref(st, b, true)
		}
		var lo, hi *Val
		if n.Low != nil {
			v := fr.expr(st, n.Low)
			lo = &v
		}
		if n.High != nil {
			v := fr.expr(st, n.High)
			hi = &v
		}
		fr.sliceBoundsCheck(st, n, b, lo, hi)
		r := x.sliceVal(st, b, lo, hi)
		r.Ty = fr.typeOf(e)
		r = x.bind(r, "sl")
		fr.sliceFmt(b, lo, hi, r)
		if _, isSlice := fr.typeOf(n.X).Underlying().(*types.Slice); isSlice && hi != nil && !n.Slice3 {
			// s[lo:hi] with hi < len(s): the result's spare capacity is s[hi:], elements s still shows
			if x.sharedOf == nil {
				x.sharedOf = map[string]string{}
			}
			x.sharedOf[r.T] = "(not (= " + hi.T + " " + x.lenOf(st, b).T + "))"
		}
		return r
	case *ast.StarExpr:
		p := fr.expr(st, n.X)
		fr.safety(st, "nil-deref", fr.src(n.X), n, "(not (= "+p.T+" 0))")
		return x.bind(x.deref(st, p, true), "dr")
	case *ast.CompositeLit:
		return fr.composite(st, n, false)
	case *ast.TypeAssertExpr:
		return fr.unsupported(st, n, "type assertion", fr.typeOf(e))
	case *ast.FuncLit:
		r := x.alloc(st, "closure")
		x.closures[r] = &closureVal{lit: n, fr: fr}
		return Val{T: r, S: "Int", Ty: fr.typeOf(e)}
	}
	return fr.unsupported(st, e, fmt.Sprintf("expression %T", e), fr.typeOf(e))
}

func (fr *Frame) ident(st *State, n *ast.Ident) Val {
	x := fr.x
	switch n.Name {
	case "nil":
		if _, ok := fr.info.ObjectOf(n).(*types.Nil); ok {
			t := fr.typeOf(n)
			if t != nil {
				if _, isSl := t.Underlying().(*types.Slice); isSl {
					return x.zeroVal(t)
				}
			}
			return Val{T: "0", S: "Int", Ty: t}
		}
	case "true", "false":
		if _, ok := fr.info.ObjectOf(n).(*types.Const); ok {
			return Val{T: n.Name, S: "Bool", Ty: types.Typ[types.Bool]}
		}
	case "_":
		return fr.unsupported(st, n, "blank", nil)
	}
	obj := fr.info.ObjectOf(n)
	switch o := obj.(type) {
	case *types.Var:
		if v, ok := x.getVar(st, o); ok {
			return v
		}
		if o.Parent() == o.Pkg().Scope() {
			return x.globalVar(o)
		}
		// variable not yet bound (e.g. captured or declared without init)
		v := x.havocVal(o.Name(), o.Type())
		x.declVar(st, o, v)
		return v
	case *types.Const:
		return x.constVal(o.Val(), o.Type())
	case *types.Func:
		return Val{T: "0", S: "Int", Ty: o.Type()}
	}
	return fr.unsupported(st, n, "identifier", fr.typeOf(n))
}

func (fr *Frame) selector(st *State, n *ast.SelectorExpr) Val {
	x := fr.x
	// qualified identifier
	if id, ok := n.X.(*ast.Ident); ok {
		if _, isPkg := fr.info.ObjectOf(id).(*types.PkgName); isPkg {
			switch o := fr.info.ObjectOf(n.Sel).(type) {
			case *types.Var:
				return x.globalVar(o)
			case *types.Const:
				return x.constVal(o.Val(), o.Type())
			case *types.Func:
				return Val{T: "0", S: "Int", Ty: o.Type()}
			}
			return fr.unsupported(st, n, "qualified name", fr.typeOf(n))
		}
	}
	sel := fr.info.Selections[n]
	if sel == nil || sel.Kind() != types.FieldVal {
		return fr.unsupported(st, n, "method value", fr.typeOf(n))
	}
	b := fr.expr(st, n.X)
	cur := b
	curT, curPtr := derefType(b.Ty)
	idx := sel.Index()
	for k, ix := range idx {
		stt, ok := curT.Underlying().(*types.Struct)
		if !ok {
			return fr.unsupported(st, n, "field path", fr.typeOf(n))
		}
		fv := stt.Field(ix)
		if curPtr {
			fr.safety(st, "nil-deref", fr.src(n.X), n, "(not (= "+cur.T+" 0))")
		}
		if curPtr {
			fr.guardedAccess(st, n, cur, curT, fv, "read")
		}
		cur = x.readField(st, cur, curT, curPtr, fv, true)
		if k < len(idx)-1 {
			curT, curPtr = derefType(fv.Type())
		}
	}
	return x.bind(cur, n.Sel.Name)
}

func (fr *Frame) boundsCheck(st *State, n ast.Node, b, i Val) {
	l := fr.x.lenOf(st, b)
	fr.safety(st, "index", fr.src(n), n, fmt.Sprintf("(and (<= 0 %s) (< %s %s))", i.T, i.T, l.T))
}

func (fr *Frame) sliceBoundsCheck(st *State, n ast.Node, b Val, lo, hi *Val) {
	l := "0"
	if lo != nil {
		l = lo.T
	}
	// capacity is not modelled: bound by len (stricter than Go for cap>len reslicing)
	ln := fr.x.lenOf(st, b).T
	h := ln
	if hi != nil {
		h = hi.T
	}
	fr.safety(st, "slice-bounds", fr.src(n), n, fmt.Sprintf("(and (<= 0 %s) (<= %s %s) (<= %s %s))", l, l, h, h, ln))
}

func (fr *Frame) unary(st *State, n *ast.UnaryExpr) Val {
	x := fr.x
	switch n.Op {
	case token.NOT:
		v := fr.expr(st, n.X)
		return Val{T: not(v.T), S: "Bool", Ty: v.Ty}
	case token.SUB:
		v := fr.expr(st, n.X)
		t := fr.typeOf(n)
		return x.bind(Val{T: wrapTo("(- "+v.T+")", t), S: "Int", Ty: t}, "neg")
	case token.ADD:
		return fr.expr(st, n.X)
	case token.AND:
		return fr.addrOf(st, n)
	case token.ARROW:
		ch := fr.expr(st, n.X)
		_ = ch
		ct, _ := fr.typeOf(n.X).Underlying().(*types.Chan)
		if ct == nil {
			return fr.unsupported(st, n, "recv", fr.typeOf(n))
		}
		rv := x.havocVal("recv", ct.Elem())
		if _, isPtr := ct.Elem().Underlying().(*types.Pointer); isPtr {
			// messages on channels are assumed to be non-nil (listed assumption)
			x.u.gfact(st.pc, "(and (> "+rv.T+" 0) (< "+rv.T+" "+st.next+"))")
		}
		return rv
	}
	return fr.unsupported(st, n, "unary "+n.Op.String(), fr.typeOf(n))
}

// addrOf handles &T{...}, &x (cells) and &x.f (field cells are not supported -> havoc).
func (fr *Frame) addrOf(st *State, n *ast.UnaryExpr) Val {
	x := fr.x
	t := fr.typeOf(n)
	switch inner := n.X.(type) {
	case *ast.CompositeLit:
		return fr.composite(st, inner, true)
	case *ast.Ident:
		// pointer to a local: the variable lives in a heap cell (cells.go)
		if o, ok := fr.info.ObjectOf(inner).(*types.Var); ok && x.eng.isCellVar(o) {
			if _, bound := st.vars[o]; !bound {
				fr.expr(st, inner)
			}
			return Val{T: st.vars[o].T, S: "Int", Ty: t}
		}
		// pointer to a package-level variable: a fixed non-nil reference allocated before entry
		if o, ok := fr.info.ObjectOf(inner).(*types.Var); ok && o.Pkg() != nil && o.Parent() == o.Pkg().Scope() {
			g := "gaddr_" + sanitize(o.Pkg().Name()+"_"+o.Name())
			if !x.heapDeclared["$"+g] {
				x.heapDeclared["$"+g] = true
				x.u.decls = append(x.u.decls, "(declare-const "+g+" Int)")
				x.u.fact("(and (> " + g + " 0) (< " + g + " " + x.next0 + "))")
			}
			return Val{T: g, S: "Int", Ty: t}
		}
		return fr.unsupported(st, n, "address-of", t)
	}
	return fr.unsupported(st, n, "address-of", t)
}

func (x *Exec) cellOf(o *types.Var, p Val) {}

func (fr *Frame) composite(st *State, n *ast.CompositeLit, addr bool) Val {
	x := fr.x
	t := fr.typeOf(n)
	if t == nil {
		return fr.unsupported(st, n, "composite", nil)
	}
	switch tt := t.Underlying().(type) {
	case *types.Struct:
		vals := make([]Val, tt.NumFields())
		for i := 0; i < tt.NumFields(); i++ {
			vals[i] = x.zeroVal(tt.Field(i).Type())
		}
		for i, el := range n.Elts {
			if kv, ok := el.(*ast.KeyValueExpr); ok {
				name := kv.Key.(*ast.Ident).Name
				for j := 0; j < tt.NumFields(); j++ {
					if tt.Field(j).Name() == name {
						vals[j] = fr.exprAs(st, kv.Value, tt.Field(j).Type())
						fr.aliasCheck(st, kv.Value, tt.Field(j), vals[j])
					}
				}
			} else {
				vals[i] = fr.exprAs(st, el, tt.Field(i).Type())
			}
		}
		if addr {
			r := x.alloc(st, "new")
			p := Val{T: r, S: "Int", Ty: types.NewPointer(t)}
			if x.eng.inRepo(t) || !isLibModelled(t) {
				for i := 0; i < tt.NumFields(); i++ {
					x.writeField(st, p, t, tt.Field(i), vals[i])
				}
			}
			libNew(fr, st, p, t)
			return p
		}
		if x.u.sortOf(t) == "Time" {
			return x.zeroVal(t)
		}
		si := x.u.structSort(t)
		var parts []string
		for _, v := range vals {
			parts = append(parts, v.T)
		}
		if len(parts) == 0 {
			parts = []string{"0"}
		}
		return x.bind(Val{T: "(mk_" + si.sort + " " + strings.Join(parts, " ") + ")", S: si.sort, Ty: t}, "lit")
	case *types.Array:
		if isByte(tt.Elem()) {
			v := x.zeroVal(t)
			for i, el := range n.Elts {
				if _, ok := el.(*ast.KeyValueExpr); ok {
					return fr.unsupported(st, n, "keyed array literal", t)
				}
				ev := fr.expr(st, el)
				nn, _ := isFixedSort(v.S)
				v = Val{T: fmt.Sprintf("(upd%d %s %d %s)", nn, v.T, i, ev.T), S: v.S, Ty: t}
			}
			return x.bind(v, "arr")
		}
	case *types.Slice:
		es := x.u.sortOf(tt.Elem())
		ss := x.u.sliceSort(es)
		arr := x.emptyArray(es)
		for i, el := range n.Elts {
			if _, ok := el.(*ast.KeyValueExpr); ok {
				return fr.unsupported(st, n, "keyed slice literal", t)
			}
			ev := fr.exprAs(st, el, tt.Elem())
			arr = fmt.Sprintf("(store %s %d %s)", arr, i, ev.T)
		}
		return x.bind(Val{T: fmt.Sprintf("(mk_%s %s %d false)", ss, arr, len(n.Elts)), S: ss, Ty: t}, "slit")
	case *types.Map:
		r := x.alloc(st, "map")
		m := Val{T: r, S: "Int", Ty: t}
		dom, _, ks, _ := x.u.mapKeys(tt)
		// fresh map is empty
		ed := x.u.fresh("emptydom", "(Array "+ks+" Bool)")
		q := "k$q" + fmt.Sprint(x.nextQ())
		x.u.fact(fmt.Sprintf("(forall ((%s %s)) (! (not (select %s %s)) :pattern ((select %s %s))))", q, ks, ed, q, ed, q))
		x.u.fact(fmt.Sprintf("(= (%s %s) 0)", x.mapcardFn(ks), ed))
		x.heapStore(st, dom, r, ed)
		for _, el := range n.Elts {
			kv, ok := el.(*ast.KeyValueExpr)
			if !ok {
				continue
			}
			k := fr.exprAs(st, kv.Key, tt.Key())
			v := fr.exprAs(st, kv.Value, tt.Elem())
			x.mapStore(st, m, k, v)
		}
		return m
	}
	return fr.unsupported(st, n, "composite literal", t)
}

// exprAs evaluates e for assignment to a location of type t (untyped nil -> zero of t,
// composite literals without type).
func (fr *Frame) exprAs(st *State, e ast.Expr, t types.Type) Val {
	if id, ok := e.(*ast.Ident); ok && id.Name == "nil" {
		if _, isNil := fr.info.ObjectOf(id).(*types.Nil); isNil {
			return fr.x.zeroVal(t)
		}
	}
	v := fr.expr(st, e)
	// concrete -> interface conversion keeps the ref / value; value types boxed as havoc non-nil ref
	if t != nil {
		if _, isI := t.Underlying().(*types.Interface); isI && v.Ty != nil {
			if _, srcI := v.Ty.Underlying().(*types.Interface); !srcI {
				return fr.box(st, v, t)
			}
		}
	}
	return v
}

func (fr *Frame) binary(st *State, n *ast.BinaryExpr) Val {
	x := fr.x
	rt := fr.typeOf(n)
	switch n.Op {
	case token.LAND, token.LOR:
		a := fr.expr(st, n.X)
		// right operand is evaluated only under the guard
		sub := st.clone()
		if n.Op == token.LAND {
			sub.pc = x.namePC(x.and(st.pc, a.T))
		} else {
			sub.pc = x.namePC(x.and(st.pc, not(a.T)))
		}
		b := fr.expr(sub, n.Y)
		// side effects of the right operand (calls) are merged back
		if sideEffects(sub, st) {
			other := st.clone()
			if n.Op == token.LAND {
				other.pc = x.namePC(x.and(st.pc, not(a.T)))
			} else {
				other.pc = x.namePC(x.and(st.pc, a.T))
			}
			opc := st.pc
			m := x.merge([]*State{sub, other})
			*st = *m
			st.pc = opc
		}
		op := "and"
		if n.Op == token.LOR {
			op = "or"
		}
		return x.bind(Val{T: "(" + op + " " + a.T + " " + b.T + ")", S: "Bool", Ty: rt}, "b")
	}
	a := fr.expr(st, n.X)
	b := fr.expr(st, n.Y)
	switch n.Op {
	case token.EQL, token.NEQ:
		t := fr.goEqual(st, n, a, b)
		if n.Op == token.NEQ {
			t = not(t)
		}
		return Val{T: t, S: "Bool", Ty: rt}
	case token.LSS, token.LEQ, token.GTR, token.GEQ:
		if a.S == "GoString" {
			return fr.unsupported(st, n, "string comparison", rt)
		}
		if a.S == "Real" && b.S == "Int" {
			b = Val{T: "(to_real " + b.T + ")", S: "Real", Ty: b.Ty}
		}
		if b.S == "Real" && a.S == "Int" {
			a = Val{T: "(to_real " + a.T + ")", S: "Real", Ty: a.Ty}
		}
		return Val{T: "(" + n.Op.String() + " " + a.T + " " + b.T + ")", S: "Bool", Ty: rt}
	case token.ADD:
		if a.S == "GoString" {
			x.need("strcat")
			return x.bind(Val{T: "(strcat " + a.T + " " + b.T + ")", S: "GoString", Ty: rt}, "cat")
		}
		r := x.bind(Val{T: wrapTo("(+ "+a.T+" "+b.T+")", rt), S: a.S, Ty: rt}, "add")
		if p, ok := x.posOf[a.T]; ok {
			if d, ok := constInt(b.T); ok {
				if np, ok := p.shift(int(d)); ok {
					// keep the result a named term so that the position survives
					if r.T == wrapTo("(+ "+a.T+" "+b.T+")", rt) {
						n := x.u.fresh("pos", "Int")
						x.u.fact("(= " + n + " " + r.T + ")")
						r = Val{T: n, S: r.S, Ty: r.Ty}
					}
					x.setPos(r.T, np)
				}
			}
		}
		return r
	case token.SUB:
		return x.bind(Val{T: wrapTo("(- "+a.T+" "+b.T+")", rt), S: a.S, Ty: rt}, "sub")
	case token.MUL:
		return x.bind(Val{T: wrapTo("(* "+a.T+" "+b.T+")", rt), S: a.S, Ty: rt}, "mul")
	case token.QUO:
		if a.S != "Int" {
			return fr.unsupported(st, n, "non-integer division", rt)
		}
		fr.safety(st, "div-zero", fr.src(n), n, "(not (= "+b.T+" 0))")
		return x.bind(Val{T: wrapTo(goDiv(a.T, b.T, rt), rt), S: "Int", Ty: rt}, "quo")
	case token.REM:
		fr.safety(st, "div-zero", fr.src(n), n, "(not (= "+b.T+" 0))")
		return x.bind(Val{T: goRem(a.T, b.T, rt), S: "Int", Ty: rt}, "rem")
	case token.SHL, token.SHR, token.AND, token.OR, token.XOR, token.AND_NOT:
		return fr.bitop(st, n, a, b, rt)
	}
	return fr.unsupported(st, n, "binary "+n.Op.String(), rt)
}

func sideEffects(a, b *State) bool {
	if len(a.heap) != len(b.heap) || a.next != b.next || len(a.ghost) != len(b.ghost) {
		return true
	}
	for k, v := range a.ghost {
		if b.ghost[k].T != v.T {
			return true
		}
	}
	for k, v := range a.heap {
		if b.heap[k] != v {
			return true
		}
	}
	return false
}

// Go integer division truncates toward zero; SMT div is floor for positive divisor (Euclidean).
func goDiv(a, b string, t types.Type) string {
	_, signed, ok := intBits(t)
	if ok && !signed {
		return "(div " + a + " " + b + ")"
	}
	// truncated division
	return fmt.Sprintf("(ite (>= %s 0) (ite (> %s 0) (div %s %s) (- (div %s (- %s)))) (ite (> %s 0) (- (div (- %s) %s)) (div (- %s) (- %s))))", a, b, a, b, a, b, b, a, b, a, b)
}

func goRem(a, b string, t types.Type) string {
	_, signed, ok := intBits(t)
	if ok && !signed {
		return "(mod " + a + " " + b + ")"
	}
	return fmt.Sprintf("(- %s (* %s %s))", a, b, goDiv(a, b, t))
}

func (fr *Frame) bitop(st *State, n *ast.BinaryExpr, a, b Val, rt types.Type) Val {
	x := fr.x
	// shifts / masks by constants are expressed arithmetically
	if c, ok := constInt(b.T); ok {
		switch n.Op {
		case token.SHL:
			return x.bind(Val{T: wrapTo(fmt.Sprintf("(* %s %s)", a.T, pow2str(c)), rt), S: "Int", Ty: rt}, "shl")
		case token.SHR:
			if _, signed, _ := intBits(rt); !signed {
				return x.bind(Val{T: fmt.Sprintf("(div %s %s)", a.T, pow2str(c)), S: "Int", Ty: rt}, "shr")
			}
		case token.AND:
			// x & (2^k - 1)
			if k, ok := isMask(c); ok {
				if _, signed, _ := intBits(rt); !signed {
					return x.bind(Val{T: fmt.Sprintf("(mod %s %s)", a.T, pow2str(int64(k))), S: "Int", Ty: rt}, "and")
				}
			}
		}
	}
	return fr.unsupported(st, n, "bit operation", rt)
}

func constInt(t string) (int64, bool) {
	var v int64
	if _, err := fmt.Sscanf(t, "%d", &v); err == nil && fmt.Sprint(v) == t {
		return v, true
	}
	return 0, false
}

func pow2str(k int64) string {
	r := "1"
	// exact big power
	b := newBig(1)
	b.Lsh(b, uint(k))
	r = b.String()
	return r
}

func isMask(c int64) (int, bool) {
	for k := 1; k < 63; k++ {
		if c == (int64(1)<<uint(k))-1 {
			return k, true
		}
	}
	return 0, false
}

// goEqual: == on Go values.
func (fr *Frame) goEqual(st *State, n ast.Node, a, b Val) string {
	x := fr.x
	// slice vs nil
	if strings.HasPrefix(a.S, "Slice_") {
		return "(snil_" + sortId(sliceElemSortOf(a.S)) + " " + a.T + ")"
	}
	if strings.HasPrefix(b.S, "Slice_") {
		return "(snil_" + sortId(sliceElemSortOf(b.S)) + " " + b.T + ")"
	}
	if a.S != b.S {
		v := fr.unsupported(st, n, "comparison of "+a.S+" and "+b.S, types.Typ[types.Bool])
		return v.T
	}
	if nn, ok := isFixedSort(a.S); ok {
		return fmt.Sprintf("(eq%d %s %s)", nn, a.T, b.T)
	}
	_ = x
	if strings.HasPrefix(a.S, "S_") {
		// struct equality is field-wise: datatype equality is exact except for nested
		// fixed arrays, handled by their own extensionality when compared directly.
	}
	return "(= " + a.T + " " + b.T + ")"
}

// conversion T(x)
func (fr *Frame) convert(st *State, n *ast.CallExpr, to types.Type) Val {
	x := fr.x
	v := fr.expr(st, n.Args[0])
	from := v.Ty
	ts := x.u.sortOf(to)
	switch {
	case ts == "Int" && v.S == "Int":
		if _, _, ok := intBits(to); ok {
			if from != nil {
				if flo, fhi, ok2 := intRange(from); ok2 {
					tlo, thi, _ := intRange(to)
					if rangeWithin(flo, fhi, tlo, thi) {
						return Val{T: v.T, S: "Int", Ty: to}
					}
				}
			}
			return x.bind(Val{T: wrapTo(v.T, to), S: "Int", Ty: to}, "cv")
		}
		return Val{T: v.T, S: "Int", Ty: to}
	case ts == v.S:
		return Val{T: v.T, S: v.S, Ty: to}
	case ts == "GoString" && strings.HasPrefix(v.S, "Slice_"):
		x.need("bytes2str")
		r := x.bind(Val{T: "(bytes2str " + v.T + ")", S: "GoString", Ty: to}, "s")
		if f, ok := x.fmtOf[v.T]; ok {
			x.setFmt(r.T, f)
		}
		return r
	case strings.HasPrefix(ts, "Slice_") && v.S == "GoString" && !isByte(elemType(to)):
		// []rune(s): one element per code point - at most one per byte
		r := x.havocVal("runes", to)
		x.u.gfact(st.pc, fmt.Sprintf("(and (<= (slen_Int %s) (strlen %s)) (not (snil_Int %s)))", r.T, v.T, r.T))
		return r
	case strings.HasPrefix(ts, "Slice_") && v.S == "GoString":
		x.need("str2bytes")
		r := x.bind(Val{T: "(str2bytes " + v.T + ")", S: ts, Ty: to}, "bs")
		if f, ok := x.fmtOf[v.T]; ok {
			x.setFmt(r.T, f)
		}
		return r
	case ts == "Real" && v.S == "Int":
		return Val{T: "(to_real " + v.T + ")", S: "Real", Ty: to}
	case ts == "Int" && v.S == "Real":
		return fr.unsupported(st, n, "float to int", to)
	}
	return fr.unsupported(st, n, "conversion "+v.S+" -> "+ts, to)
}

func rangeWithin(flo, fhi, tlo, thi string) bool {
	a, b, c, d := parseSMTInt(flo), parseSMTInt(fhi), parseSMTInt(tlo), parseSMTInt(thi)
	return a.Cmp(c) >= 0 && b.Cmp(d) <= 0
}

// box models the conversion of a concrete value to an interface value.
func (fr *Frame) box(st *State, v Val, t types.Type) Val {
	x := fr.x
	switch v.Ty.Underlying().(type) {
	case *types.Pointer, *types.Map, *types.Chan, *types.Signature:
		// reference kinds keep their identity; record the dynamic type of non-nil refs
		if _, ok := v.Ty.(*types.Named); ok || isNamedPtr(v.Ty) {
			x.need("dyntype")
			x.u.fact(fmt.Sprintf("(=> (not (= %s 0)) (= (dyntype %s) %d))", v.T, v.T, x.eng.typeTag(v.Ty)))
		}
		return Val{T: v.T, S: "Int", Ty: t}
	}
	if b, ok := v.Ty.Underlying().(*types.Basic); ok && b.Kind() == types.UntypedNil {
		return Val{T: "0", S: "Int", Ty: t}
	}
	r := x.havocVal("box", t)
	x.u.fact("(> " + r.T + " 0)")
	x.need("dyntype")
	x.need("boxsize")
	x.u.fact(fmt.Sprintf("(= (dyntype %s) %d)", r.T, x.eng.typeTag(v.Ty)))
	if k, isInt := binSize(v.Ty); k > 0 && isInt {
		val := v.T
		if _, signed, _ := intBits(v.Ty); signed {
			val = "(mod " + v.T + " " + pow2[k*8] + ")"
		}
		x.u.fact(fmt.Sprintf("(and (= (boxsize %s) %d) (= (boxint %s) %s))", r.T, k, r.T, val))
	} else {
		x.u.fact(fmt.Sprintf("(= (boxsize %s) 0)", r.T))
	}
	return r
}

func isNamedPtr(t types.Type) bool {
	if p, ok := t.(*types.Pointer); ok {
		_, ok2 := p.Elem().(*types.Named)
		return ok2
	}
	return false
}

func isLibModelled(t types.Type) bool {
	if n, ok := t.(*types.Named); ok && n.Obj().Pkg() != nil {
		switch n.Obj().Pkg().Path() + "." + n.Obj().Name() {
		case "bytes.Buffer", "math/big.Int":
			return true
		}
	}
	return false
}

// aliasCheck: slices are modelled as values, so a slice stored in a field must not share spare
// capacity with another live slice if the field is ever the target of an append (the append
// would overwrite elements the other slice still shows, which the value model cannot see).
// A two-index reslice s[lo:hi] stored into such a field has to be cut at the end of s.
func (fr *Frame) aliasCheck(st *State, n ast.Node, f *types.Var, v Val) {
	x := fr.x
	cond, ok := x.sharedOf[v.T]
	if !ok || !x.eng.fieldAppended(f) {
		return
	}
	x.used("slices are values in the model: a reslice stored into a field that is appended to must not share its spare capacity (obligation alias:...)")
	x.u.oblige("alias:reslice-with-shared-capacity-stored-in-appended-field:"+f.Name(), "alias", "a reslice stored in field "+f.Name()+" (target of append elsewhere) is cut at the end of the slice it comes from", fr.pos(n.Pos()), st.pc, "(not "+cond+")")
}
