package main

// Assumed model of the badger key-value store behind db.Database (listed in evidence):
// the store of a Database is the ghost map VAAID -> bytes (the same one stored()/storedBytes()
// read); a key is understood through the key format the code itself defines in
// (*vaa.VAAID).Bytes (extracted from that function on every run); View/Update run their
// function once (Update commits atomically or not at all); Get answers ErrKeyNotFound exactly
// for absent keys; the idiom `for it.Seek(p); it.ValidForPrefix(p); it.Next()` visits every
// key that has p as a prefix exactly once (badger iterates in key order, keys with a common
// prefix are contiguous).

import (
	"fmt"
	"go/ast"
	"go/types"
	"strings"
)

const badgerPkg = "github.com/dgraph-io/badger/v3"
const vaaPkg = "github.com/alephium/wormhole-fork/node/pkg/vaa"

func (x *Exec) idSort() (types.Type, string) {
	t, s := x.resolveTypeName(x.eng.pkgs[vaaPkg], "VAAID")
	return t, s
}

func (x *Exec) badgerKeys() {
	_, ids := x.idSort()
	x.storeKeys(ids)
	x.u.regHeap("badger.txn.db", "(Array Int Int)")
	x.u.regHeap("badger.it.db", "(Array Int Int)")
	x.u.regHeap("badger.it.visited", "(Array Int (Array "+ids+" Bool))")
	x.u.regHeap("badger.it.cur", "(Array Int "+ids+")")
	x.u.regHeap("badger.item.id", "(Array Int "+ids+")")
	x.u.regHeap("badger.item.db", "(Array Int Int)")
}

var badgerHeapKeys = []string{"badger.txn.db", "badger.it.db", "badger.it.visited", "badger.it.cur", "badger.item.id", "badger.item.db"}

// keyFormat extracts the key format from (*vaa.VAAID).Bytes:
// `return []byte(fmt.Sprintf(<literal>, i.<field>...))`. Segment args hold field names.
func (e *Engine) keyFormat() (*FmtStr, string) {
	if e.keyFmt != nil || e.keyFmtErr != "" {
		return e.keyFmt, e.keyFmtErr
	}
	fail := func(m string) (*FmtStr, string) { e.keyFmtErr = m; return nil, m }
	p := e.pkgs[vaaPkg]
	if p == nil {
		return fail("package vaa not loaded")
	}
	obj := p.Types.Scope().Lookup("VAAID")
	if obj == nil {
		return fail("vaa.VAAID not found")
	}
	nt := obj.Type().(*types.Named)
	var decl *ast.FuncDecl
	ms := types.NewMethodSet(types.NewPointer(nt))
	for i := 0; i < ms.Len(); i++ {
		if ms.At(i).Obj().Name() == "Bytes" {
			decl, _ = e.funcDecl(ms.At(i).Obj().(*types.Func))
		}
	}
	if decl == nil || decl.Body == nil || len(decl.Body.List) != 1 {
		return fail("(*VAAID).Bytes is not a single return statement")
	}
	ret, ok := decl.Body.List[0].(*ast.ReturnStmt)
	if !ok || len(ret.Results) != 1 {
		return fail("(*VAAID).Bytes: no single result")
	}
	conv, ok := ret.Results[0].(*ast.CallExpr)
	if !ok || len(conv.Args) != 1 {
		return fail("(*VAAID).Bytes: result is not []byte(fmt.Sprintf(...))")
	}
	call, ok := conv.Args[0].(*ast.CallExpr)
	if !ok {
		return fail("(*VAAID).Bytes: result is not []byte(fmt.Sprintf(...))")
	}
	if se, ok := call.Fun.(*ast.SelectorExpr); !ok || se.Sel.Name != "Sprintf" {
		return fail("(*VAAID).Bytes: result is not []byte(fmt.Sprintf(...))")
	}
	x := &Exec{eng: e}
	fr := &Frame{x: x, pkg: p, info: p.TypesInfo}
	var args []Val
	for range call.Args {
		args = append(args, Val{T: "?"})
	}
	// reuse the Sprintf analysis with placeholder argument terms
	x.u = nil
	f := fr.sprintfFmtStatic(call)
	if f == nil {
		return fail("(*VAAID).Bytes: format not made of literals, %d of unsigned integers and %s of a fixed-width hex Stringer")
	}
	_ = args
	for _, s := range f.segs {
		if s.kind != "lit" && s.field == "" {
			return fail("(*VAAID).Bytes: a verb's argument is not a field of the identifier")
		}
	}
	e.keyFmt = f
	return f, ""
}

// sprintfFmtStatic is sprintfFmt without evaluated arguments (types and field names only).
func (fr *Frame) sprintfFmtStatic(c *ast.CallExpr) *FmtStr {
	args := make([]Val, len(c.Args))
	return fr.sprintfFmt(nil, c, args)
}

// instKey instantiates the key format with the fields of an identifier value.
func (x *Exec) instKey(id string) (*FmtStr, string) {
	k, msg := x.eng.keyFormat()
	if k == nil {
		return nil, msg
	}
	t, _ := x.idSort()
	si := x.u.structSort(t)
	out := &FmtStr{}
	for _, s := range k.segs {
		if s.kind != "lit" {
			s.arg = "(" + si.sort + "." + sanitize(s.field) + " " + id + ")"
		}
		out.segs = append(out.segs, s)
	}
	return out, ""
}

// decodeKey: the identifier a key built by the key format stands for.
func (x *Exec) decodeKey(f *FmtStr) (string, bool) {
	k, _ := x.eng.keyFormat()
	if k == nil || f == nil || len(k.segs) != len(f.segs) || !injectiveFmt(k) {
		return "", false
	}
	vals := map[string]string{}
	for i, ks := range k.segs {
		fs := f.segs[i]
		if ks.kind != fs.kind || (ks.kind == "lit" && ks.lit != fs.lit) || (ks.kind == "hex" && ks.n != fs.n) || (ks.kind == "dec" && ks.bits != fs.bits) {
			return "", false
		}
		if ks.kind != "lit" {
			vals[ks.field] = fs.arg
		}
	}
	t, _ := x.idSort()
	si := x.u.structSort(t)
	var parts []string
	for _, fld := range si.fields {
		v, ok := vals[fld.Name()]
		if !ok {
			return "", false // the key does not determine this field
		}
		parts = append(parts, v)
	}
	return "(mk_" + si.sort + " " + strings.Join(parts, " ") + ")", true
}

// dbOfRecv: the Database a `X.db` receiver expression belongs to.
func (fr *Frame) dbOfRecv(st *State, c *ast.CallExpr) (Val, bool) {
	se, ok := ast.Unparen(c.Fun).(*ast.SelectorExpr)
	if !ok {
		return Val{}, false
	}
	inner, ok := ast.Unparen(se.X).(*ast.SelectorExpr)
	if !ok {
		return Val{}, false
	}
	t := fr.typeOf(inner.X)
	if t == nil {
		return Val{}, false
	}
	if pt, ok := t.Underlying().(*types.Pointer); ok {
		if nt, ok := pt.Elem().(*types.Named); ok && nt.Obj().Name() == "Database" {
			return fr.expr(st, inner.X), true
		}
	}
	return Val{}, false
}

func (x *Exec) unknownID(st *State) string {
	_, ids := x.idSort()
	return x.u.fresh("id", ids)
}

// libErr: nil or an error value of the store's own making
func (x *Exec) libErr(st *State) Val {
	err := x.errVal("err")
	e := x.ioError(st)
	x.u.gfact(st.pc, "(or (= "+err.T+" 0) (= "+err.T+" "+e+"))")
	return err
}

func (x *Exec) ioError(st *State) string {
	// an error value of the store's own making: distinct from every value that existed before
	return x.alloc(st, "ioerr")
}

func (fr *Frame) badgerRun(st *State, c *ast.CallExpr, update bool) []Val {
	x := fr.x
	x.badgerKeys()
	x.used("badger model: store of a Database = ghost map VAAID->bytes through the key format of (*VAAID).Bytes; View/Update run the function once, Update is atomic; Get: ErrKeyNotFound iff absent; Seek/ValidForPrefix/Next visit each key with the prefix once")
	d, ok := fr.dbOfRecv(st, c)
	lit, isLit := ast.Unparen(c.Args[0]).(*ast.FuncLit)
	if !ok || !isLit {
		return fr.unknownCall(st, c, fr.calleeFunc(c))
	}
	txn := x.alloc(st, "txn")
	x.heapStore(st, "badger.txn.db", txn, d.T)
	_, ids := x.idSort()
	has, val := x.storeKeys(ids)
	preHas, preVal := x.getHeap(st, has), x.getHeap(st, val)
	res := fr.inlineLitArgs(st, c, lit, fr, []Val{{T: txn, S: "Int", Ty: nil}})
	r := res[0]
	if !update {
		return []Val{r}
	}
	cf := x.u.fresh("commitfail", "Bool")
	e := x.ioError(st)
	out := x.havocVal("err", errT())
	x.u.gfact(st.pc, fmt.Sprintf("(= %s (ite (not (= %s 0)) %s (ite %s %s 0)))", out.T, r.T, r.T, cf, e))
	postHas, postVal := x.getHeap(st, has), x.getHeap(st, val)
	nh := x.u.fresh(has, x.u.heapKeys[has])
	nv := x.u.fresh(val, x.u.heapKeys[val])
	x.u.gfact(st.pc, fmt.Sprintf("(= %s (ite (= %s 0) %s %s))", nh, out.T, postHas, preHas))
	x.u.gfact(st.pc, fmt.Sprintf("(= %s (ite (= %s 0) %s %s))", nv, out.T, postVal, preVal))
	st.heap[has], st.heap[val] = nh, nv
	return []Val{out}
}

func init() {
	H := libHandlers
	db := "(*" + badgerPkg + ".DB)."
	txn := "(*" + badgerPkg + ".Txn)."
	it := "(*" + badgerPkg + ".Iterator)."
	item := "(*" + badgerPkg + ".Item)."
	H[db+"View"] = func(fr *Frame, st *State, c *ast.CallExpr, fn *types.Func) []Val { return fr.badgerRun(st, c, false) }
	H[db+"Update"] = func(fr *Frame, st *State, c *ast.CallExpr, fn *types.Func) []Val { return fr.badgerRun(st, c, true) }
	H[txn+"Set"] = func(fr *Frame, st *State, c *ast.CallExpr, fn *types.Func) []Val {
		x := fr.x
		x.badgerKeys()
		t := fr.recvOf(st, c)
		k := fr.expr(st, c.Args[0])
		v := fr.expr(st, c.Args[1])
		d := "(select " + x.getHeap(st, "badger.txn.db") + " " + t.T + ")"
		err := x.libErr(st)
		id, ok := x.decodeKey(x.fmtOf[k.T])
		if !ok {
			fr.unsupported(st, c, "badger Set with a key that is not built by the key format of (*VAAID).Bytes", nil)
			id = x.unknownID(st)
		}
		_, ids := x.idSort()
		has, val := x.storeKeys(ids)
		oh, ov := x.getHeap(st, has), x.getHeap(st, val)
		nh := x.u.fresh(has, x.u.heapKeys[has])
		nv := x.u.fresh(val, x.u.heapKeys[val])
		x.u.gfact(st.pc, fmt.Sprintf("(= %s (ite (= %s 0) (store %s %s (store (select %s %s) %s true)) %s))", nh, err.T, oh, d, oh, d, id, oh))
		x.u.gfact(st.pc, fmt.Sprintf("(= %s (ite (= %s 0) (store %s %s (store (select %s %s) %s %s)) %s))", nv, err.T, ov, d, ov, d, id, v.T, ov))
		st.heap[has], st.heap[val] = nh, nv
		return []Val{err}
	}
	H[txn+"Get"] = func(fr *Frame, st *State, c *ast.CallExpr, fn *types.Func) []Val {
		x := fr.x
		x.badgerKeys()
		t := fr.recvOf(st, c)
		k := fr.expr(st, c.Args[0])
		d := "(select " + x.getHeap(st, "badger.txn.db") + " " + t.T + ")"
		id, ok := x.decodeKey(x.fmtOf[k.T])
		if !ok {
			fr.unsupported(st, c, "badger Get with a key that is not built by the key format of (*VAAID).Bytes", nil)
			id = x.unknownID(st)
		}
		_, ids := x.idSort()
		has, _ := x.storeKeys(ids)
		itm := x.alloc(st, "item")
		x.heapStore(st, "badger.item.id", itm, id)
		x.heapStore(st, "badger.item.db", itm, d)
		err := x.errVal("err")
		nf := x.globalVar(x.eng.pkgs[badgerPkg].Types.Scope().Lookup("ErrKeyNotFound").(*types.Var))
		e := x.ioError(st)
		present := fmt.Sprintf("(select (select %s %s) %s)", x.getHeap(st, has), d, id)
		x.u.gfact(st.pc, "(not (= "+nf.T+" 0))")
		x.u.gfact(st.pc, fmt.Sprintf("(ite %s (or (= %s 0) (= %s %s)) (= %s %s))", present, err.T, err.T, e, err.T, nf.T))
		res := fr.sigResults(fn.Type().(*types.Signature), "item")
		x.u.gfact(st.pc, "(= "+res[0].T+" "+itm+")")
		return []Val{res[0], err}
	}
	H[txn+"NewIterator"] = func(fr *Frame, st *State, c *ast.CallExpr, fn *types.Func) []Val {
		x := fr.x
		x.badgerKeys()
		t := fr.recvOf(st, c)
		fr.expr(st, c.Args[0])
		i := x.alloc(st, "it")
		x.heapStore(st, "badger.it.db", i, "(select "+x.getHeap(st, "badger.txn.db")+" "+t.T+")")
		res := fr.sigResults(fn.Type().(*types.Signature), "it")
		x.u.gfact(st.pc, "(= "+res[0].T+" "+i+")")
		return res
	}
	H[it+"Close"] = func(fr *Frame, st *State, c *ast.CallExpr, fn *types.Func) []Val { fr.recvOf(st, c); return nil }
	H[it+"Seek"] = func(fr *Frame, st *State, c *ast.CallExpr, fn *types.Func) []Val {
		x := fr.x
		x.badgerKeys()
		i := fr.recvOf(st, c)
		fr.expr(st, c.Args[0])
		_, ids := x.idSort()
		empty := x.u.fresh("novisited", "(Array "+ids+" Bool)")
		q := "k$q" + fmt.Sprint(x.nextQ())
		x.u.fact(fmt.Sprintf("(forall ((%s %s)) (! (not (select %s %s)) :pattern ((select %s %s))))", q, ids, empty, q, empty, q))
		x.heapStore(st, "badger.it.visited", i.T, empty)
		return nil
	}
	H[it+"ValidForPrefix"] = func(fr *Frame, st *State, c *ast.CallExpr, fn *types.Func) []Val {
		x := fr.x
		x.badgerKeys()
		i := fr.recvOf(st, c)
		p := fr.expr(st, c.Args[0])
		_, ids := x.idSort()
		has, _ := x.storeKeys(ids)
		d := "(select " + x.getHeap(st, "badger.it.db") + " " + i.T + ")"
		vis := x.bind(Val{T: "(select " + x.getHeap(st, "badger.it.visited") + " " + i.T + ")", S: "(Array " + ids + " Bool)"}, "vis").T
		more := x.havocVal("more", types.Typ[types.Bool])
		k := x.u.fresh("key", ids)
		idT, _ := x.idSort()
		x.emitTypeFact(st, Val{T: k, S: ids, Ty: idT})
		dom := func(id string) string {
			kf, _ := x.instKey(id)
			pf := x.fmtOf[p.T]
			m := ""
			if kf != nil && pf != nil {
				if t, ok := x.hasPrefixFmt(kf, pf); ok {
					m = t
				}
			}
			if m == "" {
				fr.unsupported(st, c, "badger prefix iteration: the prefix is not a format-structured string that aligns with the key format", nil)
				if !x.heapDeclared["$badger_unknown_match"] {
					x.heapDeclared["$badger_unknown_match"] = true
					x.u.decls = append(x.u.decls, "(declare-fun badger_unknown_match ("+ids+") Bool)")
				}
				m = "(badger_unknown_match " + id + ")"
			}
			return fmt.Sprintf("(and (select (select %s %s) %s) %s)", x.getHeap(st, has), d, id, m)
		}
		x.u.gfact(st.pc, fmt.Sprintf("(=> %s (and %s (not (select %s %s))))", more.T, dom(k), vis, k))
		q := "id$q" + fmt.Sprint(x.nextQ())
		x.u.gfact(st.pc, fmt.Sprintf("(=> (not %s) (forall ((%s %s)) (=> %s (select %s %s))))", more.T, q, ids, dom(q), vis, q))
		x.heapStore(st, "badger.it.cur", i.T, k)
		return []Val{more}
	}
	H[it+"Next"] = func(fr *Frame, st *State, c *ast.CallExpr, fn *types.Func) []Val {
		x := fr.x
		x.badgerKeys()
		i := fr.recvOf(st, c)
		vis := "(select " + x.getHeap(st, "badger.it.visited") + " " + i.T + ")"
		cur := "(select " + x.getHeap(st, "badger.it.cur") + " " + i.T + ")"
		x.heapStore(st, "badger.it.visited", i.T, "(store "+vis+" "+cur+" true)")
		return nil
	}
	H[it+"Item"] = func(fr *Frame, st *State, c *ast.CallExpr, fn *types.Func) []Val {
		x := fr.x
		x.badgerKeys()
		i := fr.recvOf(st, c)
		itm := x.alloc(st, "item")
		x.heapStore(st, "badger.item.id", itm, "(select "+x.getHeap(st, "badger.it.cur")+" "+i.T+")")
		x.heapStore(st, "badger.item.db", itm, "(select "+x.getHeap(st, "badger.it.db")+" "+i.T+")")
		res := fr.sigResults(fn.Type().(*types.Signature), "item")
		x.u.gfact(st.pc, "(= "+res[0].T+" "+itm+")")
		return res
	}
	itemVal := func(fr *Frame, st *State, itm Val) (string, string) {
		x := fr.x
		_, ids := x.idSort()
		_, val := x.storeKeys(ids)
		id := x.bind(Val{T: "(select " + x.getHeap(st, "badger.item.id") + " " + itm.T + ")", S: ids}, "itemid").T
		d := "(select " + x.getHeap(st, "badger.item.db") + " " + itm.T + ")"
		return id, fmt.Sprintf("(select (select %s %s) %s)", x.getHeap(st, val), d, id)
	}
	H[item+"Key"] = func(fr *Frame, st *State, c *ast.CallExpr, fn *types.Func) []Val {
		x := fr.x
		x.badgerKeys()
		itm := fr.recvOf(st, c)
		id, _ := itemVal(fr, st, itm)
		r := x.havocVal("key", bytesT())
		x.emitTypeFact(st, r)
		if kf, _ := x.instKey(id); kf != nil {
			x.setFmt(r.T, kf)
		}
		return []Val{r}
	}
	H[item+"ValueCopy"] = func(fr *Frame, st *State, c *ast.CallExpr, fn *types.Func) []Val {
		x := fr.x
		x.badgerKeys()
		itm := fr.recvOf(st, c)
		fr.expr(st, c.Args[0])
		_, v := itemVal(fr, st, itm)
		r := x.havocVal("val", bytesT())
		x.emitTypeFact(st, r)
		err := x.libErr(st)
		x.u.gfact(st.pc, fmt.Sprintf("(=> (= %s 0) (= %s %s))", err.T, r.T, v))
		return []Val{r, err}
	}
	H[item+"Value"] = func(fr *Frame, st *State, c *ast.CallExpr, fn *types.Func) []Val {
		x := fr.x
		x.badgerKeys()
		itm := fr.recvOf(st, c)
		lit, ok := ast.Unparen(c.Args[0]).(*ast.FuncLit)
		if !ok {
			return fr.unknownCall(st, c, fn)
		}
		_, v := itemVal(fr, st, itm)
		bv := x.bind(Val{T: v, S: x.bytesSort(), Ty: bytesT()}, "val")
		res := fr.inlineLitArgs(st, c, lit, fr, []Val{bv})
		out := x.havocVal("err", errT())
		e := x.ioError(st)
		x.u.gfact(st.pc, fmt.Sprintf("(ite (not (= %s 0)) (= %s %s) (or (= %s 0) (= %s %s)))", res[0].T, out.T, res[0].T, out.T, out.T, e))
		return []Val{out}
	}
	mk := func(keys ...string) func(fr *Frame, c *ast.CallExpr, ms *modSet, markLhs func(ast.Expr)) {
		return func(fr *Frame, c *ast.CallExpr, ms *modSet, markLhs func(ast.Expr)) {
			fr.x.badgerKeys()
			for _, k := range keys {
				ms.heapKeys[k] = true
			}
		}
	}
	libMods[it+"Seek"] = mk("badger.it.visited")
	libMods[it+"Next"] = mk("badger.it.visited")
	libMods[it+"ValidForPrefix"] = mk("badger.it.cur")
	libMods[it+"Item"] = mk("badger.item.id", "badger.item.db")
	libMods[txn+"Get"] = mk("badger.item.id", "badger.item.db")
	libMods[txn+"NewIterator"] = mk("badger.it.db")
	libMods[it+"Close"] = mk()
	libMods[item+"Key"] = mk()
	libMods[item+"ValueCopy"] = mk()
}
