package main

// Format-structured strings. A string built by fmt.Sprintf from a literal format whose verbs
// are %d (integers) and %s (a fixed-width hex Stringer) is tracked, beside its opaque SMT
// term, as a list of segments. Prefix tests between two such strings, LastIndex/slicing and
// strconv.ParseUint on them are decided segment-wise ("segment alignment"):
//
//   - a %d segment renders a canonical decimal: digits only, no leading zero, so two such
//     renderings are equal iff the numbers are; a literal that follows starts with a non-digit;
//   - a hex segment of n bytes has 2n hex characters.
//
// The alignment rule (soundness argument in DESIGN.md §3-C12, generic lemma in
// specs/lean/SegAlign.lean): when the prefix pattern ends inside a %d segment, it matches every
// key whose number starts with the pattern's digits - decprefix - and not only equal numbers.

import (
	"fmt"
	"go/ast"
	"go/constant"
	"go/token"
	"go/types"
	"strings"
)

type fseg struct {
	kind  string // lit | dec | hex
	lit   string
	arg   string // SMT term: Int (dec) or A<n> array (hex)
	bits  int    // dec: width of the integer type
	n     int    // hex: number of bytes
	field string // name of the struct field the argument was read from ("" unknown)
}

type FmtStr struct{ segs []fseg }

// FmtPos is a position inside a format-structured string: before character off of segment seg.
type FmtPos struct {
	f   *FmtStr
	seg int
	off int
}

func (f *FmtStr) String() string {
	var sb strings.Builder
	for _, s := range f.segs {
		switch s.kind {
		case "lit":
			sb.WriteString(s.lit)
		case "dec":
			fmt.Fprintf(&sb, "%%d<%s>", s.field)
		case "hex":
			fmt.Fprintf(&sb, "%%hex%d<%s>", s.n, s.field)
		}
	}
	return sb.String()
}

func (x *Exec) setFmt(term string, f *FmtStr) {
	if x.fmtOf == nil {
		x.fmtOf = map[string]*FmtStr{}
	}
	x.fmtOf[term] = f
}

func (x *Exec) setPos(term string, p FmtPos) {
	if x.posOf == nil {
		x.posOf = map[string]FmtPos{}
	}
	x.posOf[term] = p
}

// hexStringer: the type has a String method whose body is `return hex.EncodeToString(r[:])`
// over a fixed byte array receiver; returns the array length.
func (e *Engine) hexStringer(t types.Type) (int, bool) {
	nt, ok := t.(*types.Named)
	if !ok {
		return 0, false
	}
	at, ok := nt.Underlying().(*types.Array)
	if !ok || !isByte(at.Elem()) {
		return 0, false
	}
	for i := 0; i < nt.NumMethods(); i++ {
		m := nt.Method(i)
		if m.Name() != "String" {
			continue
		}
		decl, _ := e.funcDecl(m)
		if decl == nil || decl.Body == nil || len(decl.Body.List) != 1 || decl.Recv == nil || len(decl.Recv.List) != 1 || len(decl.Recv.List[0].Names) != 1 {
			return 0, false
		}
		ret, ok := decl.Body.List[0].(*ast.ReturnStmt)
		if !ok || len(ret.Results) != 1 {
			return 0, false
		}
		call, ok := ret.Results[0].(*ast.CallExpr)
		if !ok || len(call.Args) != 1 {
			return 0, false
		}
		sel, ok := call.Fun.(*ast.SelectorExpr)
		if !ok || sel.Sel.Name != "EncodeToString" {
			return 0, false
		}
		if pid, ok := sel.X.(*ast.Ident); !ok || pid.Name != "hex" {
			return 0, false
		}
		se, ok := call.Args[0].(*ast.SliceExpr)
		if !ok || se.Low != nil || se.High != nil {
			return 0, false
		}
		id, ok := se.X.(*ast.Ident)
		if !ok || id.Name != decl.Recv.List[0].Names[0].Name {
			return 0, false
		}
		return int(at.Len()), true
	}
	return 0, false
}

// sprintfFmt models fmt.Sprintf(format, args...) for literal formats with %d / %s verbs.
func (fr *Frame) sprintfFmt(st *State, c *ast.CallExpr, args []Val) *FmtStr {
	x := fr.x
	if len(c.Args) == 0 {
		return nil
	}
	tv, ok := fr.info.Types[c.Args[0]]
	if !ok || tv.Value == nil || tv.Value.Kind() != constant.String {
		return nil
	}
	format := constant.StringVal(tv.Value)
	f := &FmtStr{}
	ai := 1
	lit := ""
	flush := func() {
		if lit != "" {
			f.segs = append(f.segs, fseg{kind: "lit", lit: lit})
			lit = ""
		}
	}
	for i := 0; i < len(format); i++ {
		ch := format[i]
		if ch != '%' {
			lit += string(ch)
			continue
		}
		if i+1 >= len(format) {
			return nil
		}
		i++
		verb := format[i]
		if verb == '%' {
			lit += "%"
			continue
		}
		if ai >= len(c.Args) {
			return nil
		}
		av := args[ai]
		at := fr.typeOf(c.Args[ai])
		field := ""
		if se, ok := ast.Unparen(c.Args[ai]).(*ast.SelectorExpr); ok {
			field = se.Sel.Name
		}
		ai++
		switch verb {
		case 'd':
			bits, signed, ok := intBits(at)
			if !ok || signed {
				return nil
			}
			flush()
			f.segs = append(f.segs, fseg{kind: "dec", arg: av.T, bits: bits, field: field})
		case 's':
			n, ok := x.eng.hexStringer(at)
			if !ok {
				return nil
			}
			flush()
			f.segs = append(f.segs, fseg{kind: "hex", arg: av.T, n: n, field: field})
		default:
			return nil
		}
	}
	flush()
	if ai != len(c.Args) {
		return nil
	}
	return f
}

func isDigit(b byte) bool { return b >= '0' && b <= '9' }

// decPrefix: the decimal rendering of b is a prefix of the decimal rendering of a.
func decPrefix(b, a string, bits int) string {
	digits := map[int]int{8: 3, 16: 5, 32: 10, 64: 20}[bits]
	if digits == 0 {
		digits = 20
	}
	alts := []string{"(= " + a + " " + b + ")"}
	p := "1"
	for k := 1; k < digits; k++ {
		p += "0"
		alts = append(alts, fmt.Sprintf("(and (>= %s 1) (= (div %s %s) %s))", b, a, p, b))
	}
	return "(or " + strings.Join(alts, " ") + ")"
}

// hasPrefixFmt returns the condition under which pattern p is a prefix of key k, or ok=false
// when the two formats cannot be aligned by the rules above.
func (x *Exec) hasPrefixFmt(k, p *FmtStr) (string, bool) {
	var conj []string
	ki, ko := 0, 0 // segment / offset inside a literal
	for pi := 0; pi < len(p.segs); pi++ {
		ps := p.segs[pi]
		switch ps.kind {
		case "lit":
			for po := 0; po < len(ps.lit); po++ {
				if ki >= len(k.segs) {
					return "false", true // pattern longer than the key
				}
				ks := k.segs[ki]
				if ks.kind != "lit" {
					// a literal character of the pattern against a verb of the key
					return "", false
				}
				if ks.lit[ko] != ps.lit[po] {
					return "false", true
				}
				ko++
				if ko == len(ks.lit) {
					ki, ko = ki+1, 0
				}
			}
		case "dec":
			if ki >= len(k.segs) {
				return "false", true
			}
			ks := k.segs[ki]
			if ks.kind != "dec" || ko != 0 {
				return "", false
			}
			// what follows the key's number is a non-digit (or the end)
			if ki+1 < len(k.segs) {
				nx := k.segs[ki+1]
				if nx.kind != "lit" || isDigit(nx.lit[0]) {
					return "", false
				}
			}
			if pi+1 < len(p.segs) {
				nx := p.segs[pi+1]
				if nx.kind != "lit" || isDigit(nx.lit[0]) {
					return "", false
				}
				conj = append(conj, "(= "+ks.arg+" "+ps.arg+")")
			} else {
				// the pattern ends inside the number
				conj = append(conj, decPrefix(ps.arg, ks.arg, ks.bits))
			}
			ki++
		case "hex":
			if ki >= len(k.segs) {
				return "false", true
			}
			ks := k.segs[ki]
			if ks.kind != "hex" || ko != 0 || ks.n != ps.n {
				return "", false
			}
			conj = append(conj, fmt.Sprintf("(eq%d %s %s)", ks.n, ks.arg, ps.arg))
			x.u.fixedSort(int64(ks.n))
			ki++
		}
	}
	if len(conj) == 0 {
		return "true", true
	}
	return "(and " + strings.Join(conj, " ") + ")", true
}

// injectiveFmt: distinct argument tuples give distinct strings: every verb is delimited -
// a %d is followed by a literal starting with a non-digit or ends the string, hex segments
// have fixed width.
func injectiveFmt(f *FmtStr) bool {
	for i, s := range f.segs {
		if s.kind == "dec" && i+1 < len(f.segs) {
			nx := f.segs[i+1]
			if nx.kind != "lit" || isDigit(nx.lit[0]) {
				return false
			}
		}
	}
	return true
}

// lastIndexFmt: position of the last occurrence of a one-character separator that cannot
// occur inside a verb's rendering.
func lastIndexFmt(f *FmtStr, sep string) (FmtPos, bool) {
	if len(sep) != 1 || isDigit(sep[0]) || (sep[0] >= 'a' && sep[0] <= 'f') {
		return FmtPos{}, false
	}
	for i := len(f.segs) - 1; i >= 0; i-- {
		if f.segs[i].kind != "lit" {
			continue
		}
		if j := strings.LastIndex(f.segs[i].lit, sep); j >= 0 {
			return FmtPos{f: f, seg: i, off: j}, true
		}
	}
	return FmtPos{}, false
}

// value: the numeric offset of a position (lengths of the preceding segments)
func (x *Exec) posValue(p FmtPos) string {
	n := 0
	var terms []string
	for i := 0; i < p.seg && i < len(p.f.segs); i++ {
		s := p.f.segs[i]
		switch s.kind {
		case "lit":
			n += len(s.lit)
		case "hex":
			n += 2 * s.n
		case "dec":
			x.need("declen")
			terms = append(terms, "(declen "+s.arg+")")
		}
	}
	n += p.off
	if len(terms) == 0 {
		return fmt.Sprint(n)
	}
	return "(+ " + fmt.Sprint(n) + " " + strings.Join(terms, " ") + ")"
}

func (x *Exec) fmtLen(f *FmtStr) string { return x.posValue(FmtPos{f: f, seg: len(f.segs)}) }

func (p FmtPos) shift(d int) (FmtPos, bool) {
	if p.seg >= len(p.f.segs) || p.f.segs[p.seg].kind != "lit" {
		return p, d == 0
	}
	o := p.off + d
	l := len(p.f.segs[p.seg].lit)
	if o < 0 || o > l {
		return p, false
	}
	if o == l {
		return FmtPos{f: p.f, seg: p.seg + 1, off: 0}, true
	}
	return FmtPos{f: p.f, seg: p.seg, off: o}, true
}

// subFmt: the part of f between two positions (nil = start / end).
func subFmt(f *FmtStr, lo, hi *FmtPos) *FmtStr {
	a := FmtPos{f: f, seg: 0, off: 0}
	b := FmtPos{f: f, seg: len(f.segs), off: 0}
	if lo != nil {
		a = *lo
	}
	if hi != nil {
		b = *hi
	}
	out := &FmtStr{}
	for i := a.seg; i < len(f.segs) && (i < b.seg || (i == b.seg && b.off > 0)); i++ {
		s := f.segs[i]
		if s.kind == "lit" {
			from, to := 0, len(s.lit)
			if i == a.seg {
				from = a.off
			}
			if i == b.seg {
				to = b.off
			}
			if from < to {
				out.segs = append(out.segs, fseg{kind: "lit", lit: s.lit[from:to]})
			}
			continue
		}
		out.segs = append(out.segs, s)
	}
	return out
}

func init() {
	libHandlers["fmt.Sprintf"] = func(fr *Frame, st *State, c *ast.CallExpr, fn *types.Func) []Val {
		x := fr.x
		var args []Val
		for _, a := range c.Args {
			args = append(args, fr.argEval(st, a))
		}
		x.u.declSort("GoString")
		r := x.havocVal("fs", types.Typ[types.String])
		if f := fr.sprintfFmt(st, c, args); f != nil {
			x.setFmt(r.T, f)
			x.used("fmt.Sprintf with a literal format of %d / fixed-width-hex %s verbs: tracked as a format-structured string (segment alignment rules, DESIGN.md §3-C12)")
		}
		return []Val{r}
	}
	libHandlers["strings.LastIndex"] = func(fr *Frame, st *State, c *ast.CallExpr, fn *types.Func) []Val {
		x := fr.x
		s := fr.expr(st, c.Args[0])
		fr.expr(st, c.Args[1])
		r := x.havocVal("idx", types.Typ[types.Int])
		x.u.gfact(st.pc, "(>= "+r.T+" (- 1))")
		if f, ok := x.fmtOf[s.T]; ok {
			if tv, ok := fr.info.Types[c.Args[1]]; ok && tv.Value != nil && tv.Value.Kind() == constant.String {
				if p, ok := lastIndexFmt(f, constant.StringVal(tv.Value)); ok {
					x.setPos(r.T, p)
					x.u.gfact(st.pc, "(= "+r.T+" "+x.posValue(p)+")")
					x.u.gfact(st.pc, "(= (strlen "+s.T+") "+x.fmtLen(f)+")")
				}
			}
		}
		return []Val{r}
	}
	libHandlers["strconv.ParseUint"] = func(fr *Frame, st *State, c *ast.CallExpr, fn *types.Func) []Val {
		x := fr.x
		s := fr.expr(st, c.Args[0])
		fr.expr(st, c.Args[1])
		fr.expr(st, c.Args[2])
		r := x.havocVal("pu", types.Typ[types.Uint64])
		x.emitTypeFact(st, r)
		err := x.errVal("err")
		base, okb := constInt(fr.expr(st, c.Args[1]).T)
		bits, okw := constInt(fr.expr(st, c.Args[2]).T)
		if f, ok := x.fmtOf[s.T]; ok && okb && okw && base == 10 && len(f.segs) == 1 && f.segs[0].kind == "dec" && bits > 0 && bits <= 64 {
			a := f.segs[0].arg
			fits := "(< " + a + " " + pow2str(bits) + ")"
			x.u.gfact(st.pc, fmt.Sprintf("(ite %s (and (= %s 0) (= %s %s)) (> %s 0))", fits, err.T, r.T, a, err.T))
			x.used("strconv.ParseUint of a canonical decimal rendering returns the rendered number (error iff it exceeds the bit size)")
		}
		return []Val{r, err}
	}
}

// sliceFmt propagates format structure through s[lo:hi] when the bounds are tracked positions.
func (fr *Frame) sliceFmt(b Val, lo, hi *Val, r Val) {
	x := fr.x
	f, ok := x.fmtOf[b.T]
	if !ok {
		return
	}
	// a position found in s[:k] is the same position in s
	norm := func(p FmtPos) FmtPos {
		for p.f != f && x.fmtParent[p.f] != nil {
			p.f = x.fmtParent[p.f]
		}
		return p
	}
	var lp, hp *FmtPos
	if lo != nil {
		p, ok := x.posOf[lo.T]
		if !ok {
			return
		}
		p = norm(p)
		if p.f != f {
			return
		}
		lp = &p
	}
	if hi != nil {
		p, ok := x.posOf[hi.T]
		if !ok {
			return
		}
		p = norm(p)
		if p.f != f {
			return
		}
		hp = &p
	}
	sub := subFmt(f, lp, hp)
	if lp == nil {
		if x.fmtParent == nil {
			x.fmtParent = map[*FmtStr]*FmtStr{}
		}
		x.fmtParent[sub] = f
	}
	x.setFmt(r.T, sub)
}

var _ = token.ADD

// establishFormat: a post-condition "ensures hasFormat(result, "<format>", args...)" of a callee
// under contract, assumed at a call site, makes the result a format-structured string.
func (fr *Frame) establishFormat(env *SpecEnv, sc *SCall) (ok bool) {
	x := fr.x
	defer func() {
		if r := recover(); r != nil {
			if _, isSpec := r.(specErr); isSpec {
				ok = false
				return
			}
			panic(r)
		}
	}()
	if len(sc.Args) < 2 {
		return false
	}
	fl, isLit := sc.Args[1].(*SLit)
	if !isLit || fl.Kind != "string" {
		return false
	}
	sv := env.Eval(sc.Args[0])
	f := &FmtStr{}
	format := fl.Val
	ai := 2
	lit := ""
	flush := func() {
		if lit != "" {
			f.segs = append(f.segs, fseg{kind: "lit", lit: lit})
			lit = ""
		}
	}
	for i := 0; i < len(format); i++ {
		ch := format[i]
		if ch != '%' {
			lit += string(ch)
			continue
		}
		i++
		if i >= len(format) {
			return false
		}
		if format[i] == '%' {
			lit += "%"
			continue
		}
		if ai >= len(sc.Args) {
			return false
		}
		a := env.Eval(sc.Args[ai])
		field := ""
		if sel, isSel := sc.Args[ai].(*SSelector); isSel {
			field = sel.Sel
		}
		ai++
		if a.Ty == nil {
			return false
		}
		switch format[i] {
		case 'd':
			bits, signed, okb := intBits(a.Ty)
			if !okb || signed {
				return false
			}
			flush()
			f.segs = append(f.segs, fseg{kind: "dec", arg: a.T, bits: bits, field: field})
		case 's':
			n, okh := x.eng.hexStringer(a.Ty)
			if !okh {
				return false
			}
			flush()
			f.segs = append(f.segs, fseg{kind: "hex", arg: a.T, n: n, field: field})
		default:
			return false
		}
	}
	flush()
	if ai != len(sc.Args) {
		return false
	}
	x.setFmt(sv.T, f)
	return true
}
