package main

// Replay: read the unit's inputs back from the solver model and run the real function
// on them through a per-unit Go test template injected with `go test -overlay`.

import (
	"encoding/json"
	"fmt"
	"go/types"
	"os"
	"os/exec"
	"path/filepath"
	"strings"
	"time"
)

// ---------- model readback ----------

type mq struct {
	u     *Unit
	o     *Obligation
	tmp   string
	cache map[string]string
	n     int
}

// eval asks the solver for the values of terms under the obligation's counter-model.
func (m *mq) eval(terms []string) map[string]string {
	out := map[string]string{}
	var need []string
	for _, t := range terms {
		if v, ok := m.cache[t]; ok {
			out[t] = v
		} else {
			need = append(need, t)
		}
	}
	if len(need) == 0 {
		return out
	}
	script := m.u.modelQuery(m.o, need)
	for _, be := range [][]string{{"z3-new"}, {"z3"}, {"cvc5"}} {
		m.n++
		r := solveScript(m.tmp, fmt.Sprintf("model%03d_%s", m.n, be[0]), script, 30, be)
		if r.Status != "sat" {
			continue
		}
		vals := parseGetValue(r.Output)
		if len(vals) != len(need) {
			continue
		}
		for i, t := range need {
			m.cache[t] = vals[i]
			out[t] = vals[i]
		}
		return out
	}
	return nil
}

// parseGetValue parses "sat\n((t1 v1)\n (t2 v2))" into the list of value strings.
func parseGetValue(out string) []string {
	i := strings.Index(out, "\n")
	if i < 0 {
		return nil
	}
	toks := sexpTokens(out[i+1:])
	if len(toks) == 0 || toks[0] != "(" {
		return nil
	}
	var vals []string
	p := 1
	readOne := func() string {
		if toks[p] != "(" {
			s := toks[p]
			p++
			return s
		}
		depth := 0
		var parts []string
		for {
			if toks[p] == "(" {
				depth++
			} else if toks[p] == ")" {
				depth--
			}
			parts = append(parts, toks[p])
			p++
			if depth == 0 {
				break
			}
		}
		return strings.Join(parts, " ")
	}
	for p < len(toks) && toks[p] == "(" {
		p++        // open pair
		readOne()  // term
		v := readOne()
		vals = append(vals, v)
		if p < len(toks) && toks[p] == ")" {
			p++
		}
	}
	return vals
}

func smtIntValue(v string) (string, bool) {
	v = strings.TrimSpace(v)
	v = strings.ReplaceAll(v, "( ", "(")
	v = strings.ReplaceAll(v, " )", ")")
	if strings.HasPrefix(v, "(-") {
		in := strings.TrimSpace(strings.TrimSuffix(strings.TrimPrefix(v, "(-"), ")"))
		return "-" + in, true
	}
	for _, r := range v {
		if r < '0' || r > '9' {
			return "", false
		}
	}
	return v, v != ""
}

// readValue reads the value tree of a term of Go type t from the model.
func (m *mq) readValue(x *Exec, term, sort string, t types.Type, depth int) interface{} {
	switch {
	case sort == "Bool":
		r := m.eval([]string{term})
		if r == nil {
			return nil
		}
		return r[term] == "true"
	case sort == "Int" && (t == nil || !isRefType(t)):
		r := m.eval([]string{term})
		if r == nil {
			return nil
		}
		if s, ok := smtIntValue(r[term]); ok {
			return s
		}
		return nil
	case strings.HasPrefix(sort, "Slice_"):
		id := sortId(sliceElemSortOf(sort))
		lt := "(slen_" + id + " " + term + ")"
		nt := "(snil_" + id + " " + term + ")"
		r := m.eval([]string{lt, nt})
		if r == nil {
			return nil
		}
		ls, ok := smtIntValue(r[lt])
		if !ok {
			return nil
		}
		var n int
		fmt.Sscan(ls, &n)
		res := map[string]interface{}{"len": ls, "nil": r[nt] == "true"}
		lim := n
		es := sliceElemSortOf(sort)
		et := elemType(t)
		if es == "Int" && (et == nil || !isRefType(et)) {
			if lim > 70000 {
				res["too-large"] = true
				return res
			}
			var terms []string
			for i := 0; i < lim; i++ {
				terms = append(terms, fmt.Sprintf("(select (sarr_%s %s) %d)", id, term, i))
			}
			var elems []interface{}
			for lo := 0; lo < len(terms); lo += 2000 {
				hi := lo + 2000
				if hi > len(terms) {
					hi = len(terms)
				}
				rv := m.eval(terms[lo:hi])
				if rv == nil {
					return res
				}
				for _, tm := range terms[lo:hi] {
					s, _ := smtIntValue(rv[tm])
					elems = append(elems, s)
				}
			}
			res["elems"] = elems
			return res
		}
		if lim > 300 {
			res["too-large"] = true
			return res
		}
		var elems []interface{}
		for i := 0; i < lim; i++ {
			elems = append(elems, m.readValue(x, fmt.Sprintf("(select (sarr_%s %s) %d)", id, term, i), es, et, depth+1))
		}
		res["elems"] = elems
		return res
	}
	if n, ok := isFixedSort(sort); ok {
		var terms []string
		for i := int64(0); i < n; i++ {
			terms = append(terms, fmt.Sprintf("(at%d %s %d)", n, term, i))
		}
		r := m.eval(terms)
		if r == nil {
			return nil
		}
		var elems []interface{}
		for _, tm := range terms {
			s, _ := smtIntValue(r[tm])
			elems = append(elems, s)
		}
		return elems
	}
	if sort == "Time" {
		r := m.eval([]string{"(time.unix " + term + ")", "(time.nsec " + term + ")"})
		if r == nil {
			return nil
		}
		a, _ := smtIntValue(r["(time.unix "+term+")"])
		b, _ := smtIntValue(r["(time.nsec "+term+")"])
		return map[string]interface{}{"unix": a, "nsec": b}
	}
	if sort == "Int" && t != nil {
		// reference
		r := m.eval([]string{term})
		if r == nil {
			return nil
		}
		ref, _ := smtIntValue(r[term])
		if ref == "0" {
			return nil
		}
		res := map[string]interface{}{"$ref": ref}
		if pt, ok := t.Underlying().(*types.Pointer); ok && depth < 3 {
			if stt, ok := pt.Elem().Underlying().(*types.Struct); ok && x.eng.inRepo(pt.Elem()) {
				for i := 0; i < stt.NumFields(); i++ {
					f := stt.Field(i)
					key, ok := m.u.fieldKey[f]
					if !ok || !x.heapDeclared[key] {
						continue
					}
					ft := "(select " + x.heapInit(key) + " " + term + ")"
					res[f.Name()] = m.readValue(x, ft, m.u.sortOf(f.Type()), f.Type(), depth+1)
				}
			}
		}
		return res
	}
	if strings.HasPrefix(sort, "S_") && t != nil {
		if si := m.u.structs[sort]; si != nil {
			res := map[string]interface{}{}
			for i, f := range si.fields {
				res[f.Name()] = m.readValue(x, "("+sort+"."+sanitize(f.Name())+" "+term+")", si.fsorts[i], f.Type(), depth+1)
			}
			return res
		}
	}
	return "?"
}

func isRefType(t types.Type) bool {
	switch t.Underlying().(type) {
	case *types.Pointer, *types.Map, *types.Chan, *types.Interface, *types.Signature:
		return true
	}
	return false
}

// ---------- running the template ----------

func tryReplay(eng *Engine, o *Obligation, tmp string) (bool, map[string]interface{}) {
	u := o.unit
	info := map[string]interface{}{}
	x := u.exec
	if x == nil {
		return false, nil
	}
	m := &mq{u: u, o: o, tmp: tmp, cache: map[string]string{}}
	model := map[string]interface{}{}
	if o.Result.Status != "sat" {
		info["note"] = "solver gave no model (" + o.Result.Status + "); the template falls back to its own boundary corpus"
	}
	for _, in := range u.inputs {
		if o.Result.Status != "sat" {
			break
		}
		if in.Name == "" || in.Name == "_" {
			continue
		}
		model[in.Name] = m.readValue(x, in.Term, in.Sort, in.Ty, 0)
	}
	info["model"] = model
	if u.contract == nil || u.contract.Replay == "" {
		info["note"] = "no replay template registered for this unit"
		return false, info
	}
	tpl := filepath.Join(eng.verifDir, "replays", u.contract.Replay)
	data, err := os.ReadFile(tpl)
	if err != nil {
		info["note"] = "replay template missing: " + err.Error()
		return false, info
	}
	mj, _ := json.Marshal(map[string]interface{}{"obligation": o.Name, "model": model})
	src := strings.ReplaceAll(string(data), "__MODEL_JSON__", "`"+strings.ReplaceAll(string(mj), "`", "'")+"`")
	src = strings.ReplaceAll(src, "__OBLIGATION__", "`"+strings.ReplaceAll(o.Name, "`", "'")+"`")
	rpkg := u.contract.Pkg
	if u.contract.ReplayPkg != "" {
		rpkg = u.contract.ReplayPkg
	}
	ok, out := runReplayTest(eng, rpkg, src, tmp)
	info["test_output"] = trunc2(out, 3000)
	info["template"] = u.contract.Replay
	info["confirmed_on_real_code"] = ok
	return ok, info
}

// runReplayTest injects src as an in-package test file through an overlay and runs it.
func runReplayTest(eng *Engine, pkgPath, src, tmp string) (bool, string) {
	dir := eng.dirOfPkg(pkgPath)
	if dir == "" {
		return false, "cannot locate package"
	}
	root := moduleRoot(dir)
	tf := filepath.Join(tmp, "zz_govc_replay_test.go")
	os.WriteFile(tf, []byte(src), 0o644)
	ov := map[string]map[string]string{"Replace": {filepath.Join(dir, "zz_govc_replay_test.go"): tf}}
	if p2p := stripP2P(eng, tmp); p2p != "" {
		ov["Replace"][filepath.Join(eng.repo, "node/pkg/p2p/p2p.go")] = p2p
	}
	ovf := filepath.Join(tmp, "overlay.json")
	b, _ := json.Marshal(ov)
	os.WriteFile(ovf, b, 0o644)
	rel, _ := filepath.Rel(root, dir)
	args := []string{"test", "-overlay", ovf, "-vet=off", "-count=1", "-v", "-timeout", "60s", "-run", "TestGovcReplay", "./" + rel}
	race := strings.Contains(src, "//govc:race")
	if race {
		// schedule-dependent violations (monitor obligations): the replay runs the real code
		// under the race detector, whose report is the confirmation
		args = append([]string{"test", "-race"}, args[1:]...)
	}
	cmd := exec.Command("go", args...)
	cmd.Dir = root
	cmd.Env = append(os.Environ(), "GOFLAGS=-mod=mod", "GOPROXY=off", "GOSUMDB=off", "GOTOOLCHAIN=local")
	done := make(chan struct{})
	var out []byte
	go func() { out, _ = cmd.CombinedOutput(); close(done) }()
	select {
	case <-done:
	case <-time.After(300 * time.Second):
		if cmd.Process != nil {
			cmd.Process.Kill()
		}
		return false, "replay timed out"
	}
	s := string(out)
	if race && strings.Contains(s, "WARNING: DATA RACE") {
		return true, "REPLAY-CONFIRMED by the race detector\n" + s
	}
	return strings.Contains(s, "REPLAY-CONFIRMED"), s
}
