package main

// Contract language: lexer, parser and file reader for the //@ comment blocks kept in
// /repo/**/zz_contracts_verif.go (build tag verif, comment-only files).

import (
	"fmt"
	"go/ast"
	"go/parser"
	"os"
	"strings"
)

// ---------- expression AST ----------

type SExpr interface{}

type SIdent struct{ Name string }
type SLit struct {
	Kind string // int | bool | nil | string
	Val  string
}
type SUnary struct {
	Op string
	X  SExpr
}
type SBinary struct {
	Op   string
	X, Y SExpr
}
// WiringClause: for every call of Callee in the function (also inside literals and go statements)
// the source text of Lhs equals that of Rhs after replacing $argN by the N-th argument's text.
type WiringClause struct {
	Callee, Lhs, Rhs, Src string
}

type SCall struct {
	Fun  string // possibly qualified "pkg.Name"
	Args []SExpr
}
type SSelector struct {
	X   SExpr
	Sel string
}
type SIndex struct{ X, I SExpr }
type SSlice struct{ X, Lo, Hi SExpr }
type SQuant struct {
	Forall bool
	Var    string
	Lo, Hi SExpr  // range form
	Dom    SExpr  // "in dom(m)" form
	Type   string // typed form: forall x T :: body
	Body   SExpr
}
type SOld struct{ X SExpr }
type SCond struct{ C, A, B SExpr }

// ---------- lexer ----------

type tok struct {
	k string // id int str op eof
	s string
}

func lexSpec(src string) ([]tok, error) {
	var out []tok
	i := 0
	ops := []string{"<==>", "==>", "==", "!=", "<=", ">=", "&&", "||", "::", "..", "++", "<<", ">>"}
	for i < len(src) {
		c := src[i]
		switch {
		case c == ' ' || c == '\t' || c == '\n':
			i++
		case c == '"':
			j := i + 1
			for j < len(src) && src[j] != '"' {
				if src[j] == '\\' {
					j++
				}
				j++
			}
			if j >= len(src) {
				return nil, fmt.Errorf("unterminated string")
			}
			out = append(out, tok{"str", src[i+1 : j]})
			i = j + 1
		case c >= '0' && c <= '9':
			j := i
			if strings.HasPrefix(src[i:], "0x") {
				j += 2
				for j < len(src) && strings.ContainsRune("0123456789abcdefABCDEF", rune(src[j])) {
					j++
				}
			} else {
				for j < len(src) && src[j] >= '0' && src[j] <= '9' {
					j++
				}
			}
			out = append(out, tok{"int", src[i:j]})
			i = j
		case c == '_' || c == '$' || (c >= 'a' && c <= 'z') || (c >= 'A' && c <= 'Z'):
			j := i + 1
			for j < len(src) && (src[j] == '_' || (src[j] >= 'a' && src[j] <= 'z') || (src[j] >= 'A' && src[j] <= 'Z') || (src[j] >= '0' && src[j] <= '9')) {
				j++
			}
			out = append(out, tok{"id", src[i:j]})
			i = j
		default:
			matched := false
			for _, o := range ops {
				if strings.HasPrefix(src[i:], o) {
					// ".." must not eat the first dot of "x..y" wrongly: fine, ".." is the op
					out = append(out, tok{"op", o})
					i += len(o)
					matched = true
					break
				}
			}
			if !matched {
				out = append(out, tok{"op", string(c)})
				i++
			}
		}
	}
	out = append(out, tok{"eof", ""})
	return out, nil
}

// ---------- parser (Pratt) ----------

type sparser struct {
	t []tok
	p int
}

func (p *sparser) peek() tok { return p.t[p.p] }
func (p *sparser) next() tok { t := p.t[p.p]; p.p++; return t }
func (p *sparser) isOp(s string) bool {
	t := p.peek()
	return t.k == "op" && t.s == s
}
func (p *sparser) isId(s string) bool {
	t := p.peek()
	return t.k == "id" && t.s == s
}
func (p *sparser) expectOp(s string) {
	t := p.next()
	if t.k != "op" || t.s != s {
		panic(fmt.Sprintf("expected %q, got %q", s, t.s))
	}
}

func ParseSpecExpr(src string) (e SExpr, err error) {
	defer func() {
		if r := recover(); r != nil {
			err = fmt.Errorf("spec parse error in %q: %v", src, r)
		}
	}()
	toks, lerr := lexSpec(src)
	if lerr != nil {
		return nil, lerr
	}
	p := &sparser{t: toks}
	e = p.parseExpr(0)
	if p.peek().k != "eof" {
		panic(fmt.Sprintf("trailing input at %q", p.peek().s))
	}
	return e, nil
}

var binPrec = map[string]int{
	"<==>": 1, "==>": 2, "||": 3, "&&": 4,
	"==": 5, "!=": 5, "<": 5, "<=": 5, ">": 5, ">=": 5,
	"+": 6, "-": 6, "++": 6, "*": 7, "/": 7, "%": 7,
}

func (p *sparser) parseExpr(minPrec int) SExpr {
	lhs := p.parseUnary()
	for {
		t := p.peek()
		if t.k != "op" {
			break
		}
		if t.s == "?" && minPrec <= 0 {
			p.next()
			a := p.parseExpr(1)
			p.expectOp(":")
			b := p.parseExpr(0)
			lhs = &SCond{lhs, a, b}
			continue
		}
		prec, ok := binPrec[t.s]
		if !ok || prec < minPrec {
			break
		}
		p.next()
		var rhs SExpr
		if t.s == "==>" { // right associative
			rhs = p.parseExpr(prec)
		} else {
			rhs = p.parseExpr(prec + 1)
		}
		lhs = &SBinary{t.s, lhs, rhs}
	}
	return lhs
}

func (p *sparser) parseUnary() SExpr {
	t := p.peek()
	if t.k == "op" && (t.s == "!" || t.s == "-" || t.s == "*") {
		p.next()
		return &SUnary{t.s, p.parseUnary()}
	}
	if t.k == "id" && (t.s == "forall" || t.s == "exists") {
		p.next()
		q := &SQuant{Forall: t.s == "forall"}
		q.Var = p.next().s
		if p.isId("in") {
			p.next()
			if p.isId("dom") {
				p.next()
				p.expectOp("(")
				q.Dom = p.parseExpr(0)
				p.expectOp(")")
			} else {
				q.Lo = p.parseExpr(6)
				p.expectOp("..")
				q.Hi = p.parseExpr(6)
			}
		} else {
			// typed: collect tokens up to "::"
			var sb strings.Builder
			for !p.isOp("::") {
				x := p.next()
				if x.k == "eof" {
					panic("quantifier without ::")
				}
				sb.WriteString(x.s)
			}
			q.Type = sb.String()
		}
		p.expectOp("::")
		q.Body = p.parseExpr(0)
		return q
	}
	return p.parsePostfix(p.parsePrimary())
}

func (p *sparser) parsePrimary() SExpr {
	t := p.next()
	switch t.k {
	case "int":
		return &SLit{"int", t.s}
	case "str":
		return &SLit{"string", t.s}
	case "id":
		switch t.s {
		case "true", "false":
			return &SLit{"bool", t.s}
		case "nil":
			return &SLit{"nil", ""}
		case "old":
			p.expectOp("(")
			e := p.parseExpr(0)
			p.expectOp(")")
			return &SOld{e}
		}
		return &SIdent{t.s}
	case "op":
		if t.s == "(" {
			e := p.parseExpr(0)
			p.expectOp(")")
			return e
		}
	}
	panic(fmt.Sprintf("unexpected token %q", t.s))
}

func (p *sparser) parsePostfix(e SExpr) SExpr {
	for {
		switch {
		case p.isOp("."):
			p.next()
			name := p.next()
			if name.k != "id" {
				panic("expected field name")
			}
			e = &SSelector{e, name.s}
		case p.isOp("("):
			p.next()
			var args []SExpr
			for !p.isOp(")") {
				args = append(args, p.parseExpr(0))
				if p.isOp(",") {
					p.next()
				}
			}
			p.next()
			fn := ""
			switch f := e.(type) {
			case *SIdent:
				fn = f.Name
			case *SSelector:
				if id, ok := f.X.(*SIdent); ok {
					fn = id.Name + "." + f.Sel
				}
			}
			if fn == "" {
				panic("call of non-name")
			}
			e = &SCall{fn, args}
		case p.isOp("["):
			p.next()
			var lo, hi SExpr
			if !p.isOp(":") {
				lo = p.parseExpr(0)
			}
			if p.isOp(":") {
				p.next()
				if !p.isOp("]") {
					hi = p.parseExpr(0)
				}
				p.expectOp("]")
				e = &SSlice{e, lo, hi}
			} else {
				p.expectOp("]")
				e = &SIndex{e, lo}
			}
		default:
			return e
		}
	}
}

// ---------- contract file reader ----------

type Clause struct {
	Kind  string // requires ensures invariant decreases assert use
	Label string
	Src   string
	Expr  SExpr
	Line  int
	File  string
}

type LoopSpec struct {
	Key        string
	Ord        int // 0 = any
	Invariants []*Clause
	IterEnsures []*Clause // asserted at the end of every iteration (transition relation of the body)
	Decreases  *Clause
	HavocAll   bool
}

type AtSpec struct {
	Key  string
	Ord  int
	Uses []*SCall // lemma applications
	Asserts []*Clause
	Assumes []*Clause // environment assumptions on a value received at this point (listed in evidence)
	Marks   []*MarkClause
}

// MarkClause: "mark [label] name(ref) if expr" - proves expr, then sets the ghost flag name on ref.
// Callee contracts can require marked("name", x), so that every call site has to carry the proof.
type MarkClause struct {
	Label string
	Name  string
	Ref   SExpr
	Cond  *Clause
}

type Param struct {
	Name string
	Type ast.Expr // Go type expr (for func headers may be nil)
	TypeSrc string
}

type Contract struct {
	Kind     string // func | lemma | pred | closure
	Pkg      string // package path it was found in
	Recv     *Param
	RecvType string // "*VAA" / "VAA" / ""
	Name     string
	Params   []Param
	Results  []Param
	Requires []*Clause
	Ensures  []*Clause
	Rely      []*Clause // monitor: two-state relation other goroutines keep to (assumed on re-acquisition)
	Guarantee []*Clause // monitor: two-state relation every critical section keeps to (obligation at release)
	Modifies []string // place names: "T.f", "map:T.f", "chan", "*" ; nil = nothing when ModifiesSet
	ModifiesSet bool
	Loops    []*LoopSpec
	Ats      []*AtSpec
	Props    []string
	NoPanic  bool
	NoPanicProps []string
	Trusted  bool // assume-contract
	Counts   string // ghost call counter name
	Opaque   bool // never inline even if no ensures
	Delegates string // closure [lit]: the literal's body is exactly `return <this callee>(its own parameters / captured variables)`
	Wiring    []WiringClause // syntactic relations between the arguments of every call of a callee
	FreshElems []string      // local maps/slices whose elements are only ever assigned fresh make(...) values
	CallsOnly map[string][]string // package path -> the only functions of that package the body may call
	InlineAtCallers bool
	Body     SExpr  // pred / pure body
	ResultType string // pure
	Closures []*Contract // contracts of func literals inside (Name = key)
	ClosureKey string
	ClosureOrd int
	Replay   string
	ReplayPkg string
	File     string
	Line     int
	Induct   string // lemma: induction variable
	UsesLemmas []*SCall
	FnSpecs  map[string]string
	Witness  []*Clause // named spec expressions read back from a counter-model for replay
	Notes    []string
}

func (c *Contract) Key() string {
	if c.RecvType != "" {
		return "(" + c.RecvType + ")." + c.Name
	}
	return c.Name
}

// splitLabel: "[label] rest" -> label, rest
func splitLabel(s string) (string, string) {
	s = strings.TrimSpace(s)
	if strings.HasPrefix(s, "[") {
		if j := strings.Index(s, "]"); j > 0 {
			lab := s[1:j]
			ok := true
			for _, r := range lab {
				if !(r == '-' || r == '_' || (r >= 'a' && r <= 'z') || (r >= 'A' && r <= 'Z') || (r >= '0' && r <= '9')) {
					ok = false
				}
			}
			if ok {
				return lab, strings.TrimSpace(s[j+1:])
			}
		}
	}
	return "", s
}

// parseKey: "[text]#n:" prefix -> key, ord, rest
func parseKey(s string) (string, int, string, error) {
	s = strings.TrimSpace(s)
	if !strings.HasPrefix(s, "[") {
		return "", 0, "", fmt.Errorf("expected [key] in %q", s)
	}
	depth := 0
	j := -1
	for i, r := range s {
		if r == '[' {
			depth++
		} else if r == ']' {
			depth--
			if depth == 0 {
				j = i
				break
			}
		}
	}
	if j < 0 {
		return "", 0, "", fmt.Errorf("unterminated key in %q", s)
	}
	key := s[1:j]
	rest := strings.TrimSpace(s[j+1:])
	ord := 0
	if strings.HasPrefix(rest, "#") {
		k := 1
		for k < len(rest) && rest[k] >= '0' && rest[k] <= '9' {
			ord = ord*10 + int(rest[k]-'0')
			k++
		}
		rest = strings.TrimSpace(rest[k:])
	}
	rest = strings.TrimPrefix(rest, ":")
	return key, ord, strings.TrimSpace(rest), nil
}

func parseHeader(kind, hdr string) (*Contract, error) {
	c := &Contract{Kind: kind}
	src := "package p\nfunc " + hdr + " {}"
	if kind == "pred" || kind == "pure" || kind == "lemma" {
		src = "package p\nfunc " + hdr + " {}"
	}
	f, err := parser.ParseFile(fsetSpec, "", src, 0)
	if err != nil {
		return nil, fmt.Errorf("bad header %q: %v", hdr, err)
	}
	fd := f.Decls[0].(*ast.FuncDecl)
	c.Name = fd.Name.Name
	if fd.Recv != nil && len(fd.Recv.List) == 1 {
		r := fd.Recv.List[0]
		nm := "_"
		if len(r.Names) > 0 {
			nm = r.Names[0].Name
		}
		c.Recv = &Param{Name: nm, Type: r.Type}
		c.RecvType = typeExprString(r.Type)
	}
	fl := func(l *ast.FieldList) []Param {
		var ps []Param
		if l == nil {
			return ps
		}
		for _, fld := range l.List {
			if len(fld.Names) == 0 {
				ps = append(ps, Param{Name: "_", Type: fld.Type, TypeSrc: typeExprString(fld.Type)})
			}
			for _, n := range fld.Names {
				ps = append(ps, Param{Name: n.Name, Type: fld.Type, TypeSrc: typeExprString(fld.Type)})
			}
		}
		return ps
	}
	c.Params = fl(fd.Type.Params)
	c.Results = fl(fd.Type.Results)
	return c, nil
}

func typeExprString(e ast.Expr) string {
	switch t := e.(type) {
	case *ast.Ident:
		return t.Name
	case *ast.StarExpr:
		return "*" + typeExprString(t.X)
	case *ast.SelectorExpr:
		return typeExprString(t.X) + "." + t.Sel.Name
	case *ast.ArrayType:
		if t.Len == nil {
			return "[]" + typeExprString(t.Elt)
		}
		if bl, ok := t.Len.(*ast.BasicLit); ok {
			return "[" + bl.Value + "]" + typeExprString(t.Elt)
		}
		return "[?]" + typeExprString(t.Elt)
	case *ast.MapType:
		return "map[" + typeExprString(t.Key) + "]" + typeExprString(t.Value)
	case *ast.ChanType:
		return "chan " + typeExprString(t.Value)
	case *ast.InterfaceType:
		return "interface{}"
	case *ast.FuncType:
		return "func"
	case *ast.Ellipsis:
		return "..." + typeExprString(t.Elt)
	}
	return "?"
}

// ReadContractFile parses one zz_contracts_verif.go file.
func ReadContractFile(path, pkgPath string) ([]*Contract, error) {
	data, err := os.ReadFile(path)
	if err != nil {
		return nil, err
	}
	// gather logical lines: a //@ line whose content starts with "|" continues the previous one
	type ln struct {
		s string
		n int
	}
	var lines []ln
	for i, raw := range strings.Split(string(data), "\n") {
		t := strings.TrimSpace(raw)
		if !strings.HasPrefix(t, "//@") {
			continue
		}
		body := strings.TrimPrefix(t, "//@")
		if j := strings.Index(body, " //"); j >= 0 && !strings.Contains(body[:j], "\"") { // trailing comment
			body = body[:j]
		}
		tb := strings.TrimSpace(body)
		if tb == "" {
			continue
		}
		if strings.HasPrefix(tb, "|") && len(lines) > 0 {
			lines[len(lines)-1].s += " " + strings.TrimSpace(tb[1:])
			continue
		}
		lines = append(lines, ln{tb, i + 1})
	}
	var out []*Contract
	var cur *Contract     // current top-level block
	var tgt *Contract     // where clauses go (cur or a closure of cur)
	var curLoop *LoopSpec // for continued loop clauses
	var curAt *AtSpec
	mkClause := func(kind, rest string, line int) (*Clause, error) {
		lab, src := splitLabel(rest)
		e, err := ParseSpecExpr(src)
		if err != nil {
			return nil, fmt.Errorf("%s:%d: %v", path, line, err)
		}
		return &Clause{Kind: kind, Label: lab, Src: src, Expr: e, Line: line, File: path}, nil
	}
	for _, l := range lines {
		s := l.s
		word := s
		rest := ""
		if j := strings.IndexAny(s, " \t"); j > 0 {
			word, rest = s[:j], strings.TrimSpace(s[j+1:])
		}
		switch word {
		case "func", "lemma", "monitor":
			// monitor (recv *T) field(): the mutex field guards the places listed under
			// "modifies"; the "invariant" clauses hold whenever the mutex is free
			c, err := parseHeader(word, rest)
			if err != nil {
				return nil, fmt.Errorf("%s:%d: %v", path, l.n, err)
			}
			c.Pkg, c.File, c.Line = pkgPath, path, l.n
			out = append(out, c)
			cur, tgt, curLoop, curAt = c, c, nil, nil
		case "pred", "pure":
			j := strings.Index(rest, "=")
			// find the '=' that follows the closing paren of the header
			depth := 0
			j = -1
			for i, r := range rest {
				if r == '(' {
					depth++
				} else if r == ')' {
					depth--
				} else if r == '=' && depth == 0 {
					j = i
					break
				}
			}
			if j < 0 {
				return nil, fmt.Errorf("%s:%d: pred without body", path, l.n)
			}
			c, err := parseHeader(word, strings.TrimSpace(rest[:j]))
			if err != nil {
				return nil, fmt.Errorf("%s:%d: %v", path, l.n, err)
			}
			e, err := ParseSpecExpr(strings.TrimSpace(rest[j+1:]))
			if err != nil {
				return nil, fmt.Errorf("%s:%d: %v", path, l.n, err)
			}
			c.Body = e
			c.Kind = "pred"
			c.Pkg, c.File, c.Line = pkgPath, path, l.n
			out = append(out, c)
			cur, tgt, curLoop, curAt = nil, nil, nil, nil
		default:
			if tgt == nil {
				return nil, fmt.Errorf("%s:%d: clause outside block: %s", path, l.n, s)
			}
			if tgt.Kind == "monitor" && (word == "invariant" || word == "rely" || word == "guarantee") {
				cl, err := mkClause(word, rest, l.n)
				if err != nil {
					return nil, err
				}
				switch word {
				case "invariant":
					tgt.Requires = append(tgt.Requires, cl)
				case "rely":
					tgt.Rely = append(tgt.Rely, cl)
				case "guarantee":
					tgt.Guarantee = append(tgt.Guarantee, cl)
				}
				continue
			}
			switch word {
			case "requires", "ensures":
				cl, err := mkClause(word, rest, l.n)
				if err != nil {
					return nil, err
				}
				if word == "requires" {
					tgt.Requires = append(tgt.Requires, cl)
				} else {
					tgt.Ensures = append(tgt.Ensures, cl)
				}
				curLoop, curAt = nil, nil
			case "modifies":
				tgt.ModifiesSet = true
				if rest != "nothing" {
					for _, m := range strings.Split(rest, ",") {
						tgt.Modifies = append(tgt.Modifies, strings.TrimSpace(m))
					}
				}
			case "props":
				for _, m := range strings.FieldsFunc(rest, func(r rune) bool { return r == ',' || r == ' ' }) {
					tgt.Props = append(tgt.Props, m)
				}
			case "nopanic":
				tgt.NoPanic = true
				// "nopanic C13": the safety obligations count only for the listed properties
				for _, m := range strings.FieldsFunc(rest, func(r rune) bool { return r == ',' || r == ' ' }) {
					tgt.NoPanicProps = append(tgt.NoPanicProps, m)
				}
			case "nonblocking":
				tgt.Notes = append(tgt.Notes, "nonblocking")
			case "assume-contract":
				tgt.Trusted = true
			case "counts":
				// every call of this function increments the ghost counter ghostCount("<name>")
				tgt.Counts = strings.TrimSpace(rest)
			case "wiring":
				// wiring <callee>: <template> == <template>
				j := strings.Index(rest, ":")
				k := strings.Index(rest, "==")
				if j < 0 || k < j {
					return nil, fmt.Errorf("%s:%d: wiring <callee>: <template> == <template>", path, l.n)
				}
				tgt.Wiring = append(tgt.Wiring, WiringClause{Callee: strings.TrimSpace(rest[:j]), Lhs: strings.TrimSpace(rest[j+1 : k]), Rhs: strings.TrimSpace(rest[k+2:]), Src: rest})
			case "fresh-elements":
				for _, nm := range strings.Split(rest, ",") {
					tgt.FreshElems = append(tgt.FreshElems, strings.TrimSpace(nm))
				}
			case "delegates":
				tgt.Delegates = strings.TrimSpace(rest)
			case "calls-only":
				// calls-only <package path>: F, G, H  - a frame on library configuration: of that
				// package the body calls these functions and no others
				j := strings.Index(rest, ":")
				if j < 0 {
					return nil, fmt.Errorf("%s:%d: calls-only <package>: names", path, l.n)
				}
				if tgt.CallsOnly == nil {
					tgt.CallsOnly = map[string][]string{}
				}
				pk := strings.TrimSpace(rest[:j])
				for _, nm := range strings.Split(rest[j+1:], ",") {
					tgt.CallsOnly[pk] = append(tgt.CallsOnly[pk], strings.TrimSpace(nm))
				}
			case "opaque":
				tgt.Opaque = true
			case "inline-at-callers":
				// verified as its own unit, but callers execute its body (needed when the
				// callee runs a function literal of the caller)
				tgt.InlineAtCallers = true
			case "replay":
				tgt.Replay = rest
			case "replay-in":
				// replay-in <package path> <template>: the template is a test of another package
				f := strings.Fields(rest)
				if len(f) == 2 {
					tgt.ReplayPkg, tgt.Replay = f[0], f[1]
				}
			case "witness":
				j := strings.Index(rest, "=")
				if j < 0 {
					return nil, fmt.Errorf("%s:%d: witness needs name = expr", path, l.n)
				}
				e, err := ParseSpecExpr(strings.TrimSpace(rest[j+1:]))
				if err != nil {
					return nil, fmt.Errorf("%s:%d: %v", path, l.n, err)
				}
				tgt.Witness = append(tgt.Witness, &Clause{Kind: "witness", Label: strings.TrimSpace(rest[:j]), Src: rest[j+1:], Expr: e, Line: l.n, File: path})
			case "fnspec":
				// fnspec <param>: <kind>   contract of a function-typed parameter or local
				//   nonnil-on-success : touches no modelled state; pointer results are non-nil iff the error result is nil
				j := strings.Index(rest, ":")
				if j < 0 {
					return nil, fmt.Errorf("%s:%d: fnspec needs name: kind", path, l.n)
				}
				if tgt.FnSpecs == nil {
					tgt.FnSpecs = map[string]string{}
				}
				tgt.FnSpecs[strings.TrimSpace(rest[:j])] = strings.TrimSpace(rest[j+1:])
			case "induction":
				tgt.Induct = rest
			case "uses":
				e, err := ParseSpecExpr(rest)
				if err != nil {
					return nil, fmt.Errorf("%s:%d: %v", path, l.n, err)
				}
				if c, ok := e.(*SCall); ok {
					tgt.UsesLemmas = append(tgt.UsesLemmas, c)
				}
			case "note":
				tgt.Notes = append(tgt.Notes, rest)
			case "loop":
				key, ord, r2, err := parseKey(rest)
				if err != nil {
					return nil, fmt.Errorf("%s:%d: %v", path, l.n, err)
				}
				curLoop = &LoopSpec{Key: key, Ord: ord}
				tgt.Loops = append(tgt.Loops, curLoop)
				curAt = nil
				if r2 != "" {
					if err := addLoopClause(curLoop, r2, mkClause, l.n); err != nil {
						return nil, err
					}
				}
			case "invariant", "decreases", "havoc-all", "iter-ensures":
				if curLoop == nil {
					return nil, fmt.Errorf("%s:%d: %s outside loop", path, l.n, word)
				}
				if err := addLoopClause(curLoop, s, mkClause, l.n); err != nil {
					return nil, err
				}
			case "at":
				key, ord, r2, err := parseKey(rest)
				if err != nil {
					return nil, fmt.Errorf("%s:%d: %v", path, l.n, err)
				}
				curAt = &AtSpec{Key: key, Ord: ord}
				tgt.Ats = append(tgt.Ats, curAt)
				curLoop = nil
				if r2 != "" {
					if err := addAtClause(curAt, r2, mkClause, l.n); err != nil {
						return nil, err
					}
				}
			case "use", "assert", "assume-env", "mark":
				if curAt == nil {
					return nil, fmt.Errorf("%s:%d: %s outside at", path, l.n, word)
				}
				if err := addAtClause(curAt, s, mkClause, l.n); err != nil {
					return nil, err
				}
			case "closure":
				key, ord, _, err := parseKey(rest)
				if err != nil {
					return nil, fmt.Errorf("%s:%d: %v", path, l.n, err)
				}
				cc := &Contract{Kind: "closure", Pkg: pkgPath, ClosureKey: key, ClosureOrd: ord, File: path, Line: l.n, Name: cur.Name + "$closure[" + key + "]", Props: cur.Props}
				cur.Closures = append(cur.Closures, cc)
				tgt, curLoop, curAt = cc, nil, nil
			case "end-closure":
				tgt, curLoop, curAt = cur, nil, nil
			default:
				return nil, fmt.Errorf("%s:%d: unknown clause %q", path, l.n, word)
			}
		}
	}
	return out, nil
}

func addLoopClause(ls *LoopSpec, s string, mk func(string, string, int) (*Clause, error), line int) error {
	word, rest := s, ""
	if j := strings.IndexAny(s, " \t"); j > 0 {
		word, rest = s[:j], strings.TrimSpace(s[j+1:])
	}
	switch word {
	case "invariant":
		cl, err := mk("invariant", rest, line)
		if err != nil {
			return err
		}
		ls.Invariants = append(ls.Invariants, cl)
	case "iter-ensures":
		cl, err := mk("iter-ensures", rest, line)
		if err != nil {
			return err
		}
		ls.IterEnsures = append(ls.IterEnsures, cl)
	case "decreases":
		cl, err := mk("decreases", rest, line)
		if err != nil {
			return err
		}
		ls.Decreases = cl
	case "havoc-all":
		ls.HavocAll = true
	default:
		return fmt.Errorf("line %d: bad loop clause %q", line, s)
	}
	return nil
}

func addAtClause(as *AtSpec, s string, mk func(string, string, int) (*Clause, error), line int) error {
	word, rest := s, ""
	if j := strings.IndexAny(s, " \t"); j > 0 {
		word, rest = s[:j], strings.TrimSpace(s[j+1:])
	}
	switch word {
	case "use":
		e, err := ParseSpecExpr(rest)
		if err != nil {
			return err
		}
		c, ok := e.(*SCall)
		if !ok {
			return fmt.Errorf("line %d: use needs lemma(args)", line)
		}
		as.Uses = append(as.Uses, c)
	case "assert":
		cl, err := mk("assert", rest, line)
		if err != nil {
			return err
		}
		as.Asserts = append(as.Asserts, cl)
	case "mark":
		lab, r2 := splitLabel(rest)
		j := strings.Index(r2, " if ")
		if j < 0 {
			return fmt.Errorf("line %d: mark needs name(ref) if expr", line)
		}
		head, err := ParseSpecExpr(strings.TrimSpace(r2[:j]))
		if err != nil {
			return err
		}
		hc, ok := head.(*SCall)
		if !ok || len(hc.Args) != 1 {
			return fmt.Errorf("line %d: mark needs name(ref)", line)
		}
		cl, err := mk("mark", "["+lab+"] "+strings.TrimSpace(r2[j+4:]), line)
		if err != nil {
			return err
		}
		as.Marks = append(as.Marks, &MarkClause{Label: lab, Name: hc.Fun, Ref: hc.Args[0], Cond: cl})
	case "assume-env":
		cl, err := mk("assume-env", rest, line)
		if err != nil {
			return err
		}
		as.Assumes = append(as.Assumes, cl)
	default:
		return fmt.Errorf("line %d: bad at clause %q", line, s)
	}
	return nil
}
