package main

// Symbolic execution of Go function bodies (typed AST) into verification conditions.

import (
	"fmt"
	"go/ast"
	"go/token"
	"go/types"
	"strings"

	"golang.org/x/tools/go/packages"
)

type Exec struct {
	mutexKeys    map[string]bool
	fmtParent    map[*FmtStr]*FmtStr
	fmtOf        map[string]*FmtStr
	posOf        map[string]FmtPos
	havocAllPCs  []string // path conditions under which the whole heap was havoc'd
	lastAcq      *State
	monAcq       map[string]*State // state right after the latest acquisition of a monitor (old() of its guarantee clauses)
	guardedMaps  map[string]string // dom heap key of a guarded map type -> mutex key of its monitor
	guardedBy    map[string]string // heap key of a guarded field -> mutex key of its monitor
	sharedOf     map[string]string // slice term -> condition under which its backing array extends into elements of the slice it was cut from
	coverDone    map[*AtSpec]bool
	cntDeclared  map[string]bool
	eng          *Engine
	u            *Unit
	next0        string
	heapDeclared map[string]bool
	globals      map[*types.Var]Val
	needPrelude  map[string]bool
	qn           int
	entry        *State
	callCount    map[string]int
	closures     map[string]*closureVal // ref term -> literal
	emptyArr     map[string]string
	libUsed      map[string]bool
	usedContracts map[string]*Contract
	assignedGlobals []string
	havocAllSeen bool
	atHits       map[*AtSpec]bool
	loopHits     map[*LoopSpec]bool
}

type closureVal struct {
	lit *ast.FuncLit
	fr  *Frame
	st  *State // captured variable view at creation (by reference semantics approximated at call time)
}

type loopCtx struct {
	i     string // $i term
	entry *State // state at loop entry (before the head havoc)
	head  *State // state at the head of the iteration being executed
}

type Frame struct {
	inSnapEnv bool
	x        *Exec
	pkg      *packages.Package
	info     *types.Info
	contract *Contract
	sig      *types.Signature
	named    []*types.Var // named results
	safe     bool
	depth    int
	loops    []*loopCtx
	specNames map[string]Val // contract names -> entry values
	defers   []*ast.CallExpr
	fnName   string
	inlineStack []string
	loopOrd  map[string]int
	atOrd    map[string]int
	closureOrd map[string]int
	body     *ast.BlockStmt
	modsInfo map[string]string
	unitBody *ast.BlockStmt // body of the function under contract (closures keep it)
	unitLo, unitHi token.Pos // source range of the function under contract: only its own variables are visible to contracts
}

func newExec(eng *Engine, u *Unit) *Exec {
	x := &Exec{eng: eng, u: u, heapDeclared: map[string]bool{}, globals: map[*types.Var]Val{}, needPrelude: map[string]bool{}, callCount: map[string]int{}, closures: map[string]*closureVal{}, emptyArr: map[string]string{}, atHits: map[*AtSpec]bool{}, loopHits: map[*LoopSpec]bool{}}
	u.decls = append(u.decls, "(declare-const next!0 Int)")
	u.fact("(> next!0 0)")
	x.next0 = "next!0"
	return x
}

func (fr *Frame) pos(p token.Pos) string {
	pp := fr.x.eng.fset.Position(p)
	f := pp.Filename
	if i := strings.Index(f, "/repo/"); i >= 0 {
		f = f[i+6:]
	}
	return fmt.Sprintf("%s:%d", f, pp.Line)
}

func (fr *Frame) src(n ast.Node) string {
	return fr.x.eng.nodeSrc(n)
}

// unsupported: record a havoc site and return an unconstrained value.
func (fr *Frame) unsupported(st *State, n ast.Node, what string, t types.Type) Val {
	fr.x.u.havocSites = append(fr.x.u.havocSites, fmt.Sprintf("%s: %s (%s)", fr.pos(n.Pos()), what, trunc(fr.src(n), 60)))
	return fr.x.havocVal("hv", t)
}

func trunc(s string, n int) string {
	s = strings.Join(strings.Fields(s), " ")
	if len(s) > n {
		return s[:n] + "…"
	}
	return s
}

// safety: emits a no-panic obligation when the frame is in safe mode, then assumes it.
func (fr *Frame) safety(st *State, kind, detail string, n ast.Node, goal string) {
	if goal == "true" {
		return
	}
	if fr.safe {
		name := "safe:" + kind + ":" + trunc(detail, 50)
		fr.x.u.oblige(name, "safe", kind+" "+detail, fr.pos(n.Pos()), st.pc, goal)
	}
	fr.x.u.gfact(st.pc, goal)
}

func (x *Exec) bind(v Val, base string) Val {
	if len(v.T) <= 48 {
		return v
	}
	n := x.u.fresh(base, v.S)
	x.u.fact("(= " + n + " " + v.T + ")")
	if f, ok := x.fmtOf[v.T]; ok {
		x.setFmt(n, f)
	}
	if p, ok := x.posOf[v.T]; ok {
		x.setPos(n, p)
	}
	if c, ok := x.sharedOf[v.T]; ok {
		x.sharedOf[n] = c
	}
	return Val{T: n, S: v.S, Ty: v.Ty}
}

func (x *Exec) emptyArray(elem string) string {
	if n, ok := x.emptyArr[elem]; ok {
		return n
	}
	n := "emptyarr_" + sortId(elem)
	x.u.decls = append(x.u.decls, fmt.Sprintf("(declare-const %s (Array Int %s))", n, elem))
	x.emptyArr[elem] = n
	return n
}

func (x *Exec) zeroVal(t types.Type) Val {
	s := x.u.sortOf(t)
	switch {
	case s == "Int":
		return Val{T: "0", S: s, Ty: t}
	case s == "Real":
		return Val{T: "0.0", S: s, Ty: t}
	case s == "Bool":
		return Val{T: "false", S: s, Ty: t}
	case s == "GoString":
		v := x.strLit("")
		v.Ty = t
		return v
	case s == "Time":
		if !x.u.sortSeen["time.zero"] {
			x.u.sortSeen["time.zero"] = true
			x.u.decls = append(x.u.decls, "(declare-const time.zero Time)")
		}
		return Val{T: "time.zero", S: s, Ty: t}
	case strings.HasPrefix(s, "Slice_"):
		es := sliceElemSortOf(s)
		if sl, ok := t.Underlying().(*types.Slice); ok {
			es = x.u.sortOf(sl.Elem())
		}
		return Val{T: fmt.Sprintf("(mk_%s %s 0 true)", s, x.emptyArray(es)), S: s, Ty: t}
	}
	if n, ok := isFixedSort(s); ok {
		return Val{T: fmt.Sprintf("zero%d", n), S: s, Ty: t}
	}
	if si := x.u.structSort(t); si != nil && strings.HasPrefix(s, "S_") {
		var parts []string
		for _, f := range si.fields {
			parts = append(parts, x.zeroVal(f.Type()).T)
		}
		if len(parts) == 0 {
			parts = []string{"0"}
		}
		return Val{T: "(mk_" + s + " " + strings.Join(parts, " ") + ")", S: s, Ty: t}
	}
	return x.havocVal("zero", t)
}

// ---------- value helpers ----------

func derefType(t types.Type) (types.Type, bool) {
	if p, ok := t.Underlying().(*types.Pointer); ok {
		return p.Elem(), true
	}
	return t, false
}

func (x *Exec) readFieldByName(st *State, b Val, name string, emitFacts bool) Val {
	if b.Ty == nil {
		specFail("field %s of untyped value %s", name, b.T)
	}
	base, isPtr := derefType(b.Ty)
	var pkg *types.Package
	if n, ok := base.(*types.Named); ok {
		pkg = n.Obj().Pkg()
	}
	obj, idx, _ := types.LookupFieldOrMethod(base, true, pkg, name)
	f, ok := obj.(*types.Var)
	if !ok || f == nil {
		specFail("no field %s in %s", name, base)
	}
	cur := b
	curT := base
	curPtr := isPtr
	for k, ix := range idx {
		stt, ok := curT.Underlying().(*types.Struct)
		if !ok {
			specFail("field path through non-struct")
		}
		fv := stt.Field(ix)
		cur = x.readField(st, cur, curT, curPtr, fv, emitFacts)
		if k < len(idx)-1 {
			curT, curPtr = derefType(fv.Type())
		}
	}
	return cur
}

func (x *Exec) readField(st *State, b Val, owner types.Type, isPtr bool, f *types.Var, emitFacts bool) Val {
	fs := x.u.sortOf(f.Type())
	var v Val
	if isPtr {
		key := x.u.heapKeyForField(f, owner)
		v = Val{T: "(select " + x.getHeap(st, key) + " " + b.T + ")", S: fs, Ty: f.Type()}
	} else {
		si := x.u.structSort(owner)
		v = Val{T: "(" + si.sort + "." + sanitize(f.Name()) + " " + b.T + ")", S: fs, Ty: f.Type()}
	}
	if emitFacts {
		x.emitTypeFact(st, v)
	}
	return v
}

func (x *Exec) emitTypeFact(st *State, v Val) {
	if tf := x.u.typeFact(v); tf != "" {
		x.u.fact(tf)
	}
	if v.Ty != nil {
		switch v.Ty.Underlying().(type) {
		case *types.Pointer, *types.Map, *types.Chan:
			x.u.fact("(< " + v.T + " " + st.next + ")")
		}
	}
}

func (x *Exec) lenOf(st *State, v Val) Val {
	it := types.Typ[types.Int]
	if strings.HasPrefix(v.S, "Slice_") {
		return Val{T: "(slen_" + sortId(sliceElemSortOf(v.S)) + " " + v.T + ")", S: "Int", Ty: it}
	}
	if n, ok := isFixedSort(v.S); ok {
		return Val{T: fmt.Sprint(n), S: "Int", Ty: it}
	}
	if v.S == "GoString" {
		return Val{T: "(strlen " + v.T + ")", S: "Int", Ty: it}
	}
	if v.Ty != nil {
		switch tt := v.Ty.Underlying().(type) {
		case *types.Map:
			dom, _, ks, _ := x.u.mapKeys(tt)
			fn := x.mapcardFn(ks)
			return Val{T: fmt.Sprintf("(%s (select %s %s))", fn, x.getHeap(st, dom), v.T), S: "Int", Ty: it}
		case *types.Array:
			return Val{T: fmt.Sprint(tt.Len()), S: "Int", Ty: it}
		case *types.Pointer:
			if at, ok := tt.Elem().Underlying().(*types.Array); ok {
				return Val{T: fmt.Sprint(at.Len()), S: "Int", Ty: it}
			}
		}
	}
	specFail("len of %s (%s)", v.T, v.S)
	return Val{}
}

func elemType(t types.Type) types.Type {
	if t == nil {
		return nil
	}
	switch tt := t.Underlying().(type) {
	case *types.Slice:
		return tt.Elem()
	case *types.Array:
		return tt.Elem()
	case *types.Map:
		return tt.Elem()
	case *types.Pointer:
		return elemType(tt.Elem())
	case *types.Basic:
		if tt.Info()&types.IsString != 0 {
			return types.Typ[types.Uint8]
		}
	}
	return nil
}

func (x *Exec) indexVal(st *State, b, i Val, emitFacts bool) Val {
	et := elemType(b.Ty)
	var v Val
	switch {
	case strings.HasPrefix(b.S, "Slice_"):
		es := sliceElemSortOf(b.S)
		if et != nil {
			es = x.u.sortOf(et)
		}
		v = Val{T: "(select (sarr_" + sortId(es) + " " + b.T + ") " + i.T + ")", S: es, Ty: et}
		if et == nil && es == "Int" {
			// spec-level Bytes
		}
	case b.S == "GoString":
		x.need("strat")
		v = Val{T: "(strat " + b.T + " " + i.T + ")", S: "Int", Ty: types.Typ[types.Uint8]}
	case b.Ty != nil && isMap(b.Ty):
		mt := b.Ty.Underlying().(*types.Map)
		dom, val, _, _ := x.u.mapKeys(mt)
		z := x.zeroVal(mt.Elem())
		v = Val{T: fmt.Sprintf("(ite (select (select %s %s) %s) (select (select %s %s) %s) %s)", x.getHeap(st, dom), b.T, i.T, x.getHeap(st, val), b.T, i.T, z.T), S: z.S, Ty: mt.Elem()}
	default:
		if n, ok := isFixedSort(b.S); ok {
			v = Val{T: fmt.Sprintf("(at%d %s %s)", n, b.T, i.T), S: "Int", Ty: types.Typ[types.Uint8]}
			if et != nil {
				v.Ty = et
			}
		} else if strings.HasPrefix(b.S, "(Array Int ") {
			es := strings.TrimSuffix(strings.TrimPrefix(b.S, "(Array Int "), ")")
			v = Val{T: "(select " + b.T + " " + i.T + ")", S: es, Ty: et}
		} else {
			specFail("index of %s (%s)", b.T, b.S)
		}
	}
	if emitFacts {
		x.emitTypeFact(st, v)
	}
	return v
}

func isMap(t types.Type) bool {
	_, ok := t.Underlying().(*types.Map)
	return ok
}

// sliceVal implements b[lo:hi] with value semantics.
func (x *Exec) sliceVal(st *State, b Val, lo, hi *Val) Val {
	if n, ok := isFixedSort(b.S); ok {
		// a[:] and a[lo:hi] of a fixed byte array
		bs := x.u.sliceSort("Int")
		full := Val{T: fmt.Sprintf("(bytes%d %s)", n, b.T), S: bs, Ty: types.NewSlice(types.Typ[types.Uint8])}
		if lo == nil && hi == nil {
			return full
		}
		return x.sliceVal(st, full, lo, hi)
	}
	if b.S == "GoString" {
		x.need("substr")
		l, h := "0", "(strlen "+b.T+")"
		if lo != nil {
			l = lo.T
		}
		if hi != nil {
			h = hi.T
		}
		return Val{T: "(substr " + b.T + " " + l + " " + h + ")", S: "GoString", Ty: b.Ty}
	}
	if !strings.HasPrefix(b.S, "Slice_") {
		specFail("slicing of %s", b.S)
	}
	es := sliceElemSortOf(b.S)
	if et := elemType(b.Ty); et != nil {
		es = x.u.sortOf(et)
	}
	id := sortId(es)
	l := "0"
	if lo != nil {
		l = lo.T
	}
	h := "(slen_" + id + " " + b.T + ")"
	if hi != nil {
		h = hi.T
	}
	if l == "0" {
		return Val{T: fmt.Sprintf("(mk_%s (sarr_%s %s) %s false)", b.S, id, b.T, h), S: b.S, Ty: b.Ty}
	}
	return Val{T: fmt.Sprintf("(sub_%s %s %s %s)", id, b.T, l, h), S: b.S, Ty: b.Ty}
}

// deref of a pointer value: struct pointers give the struct datatype value, others a cell read.
func (x *Exec) deref(st *State, p Val, emitFacts bool) Val {
	pt, ok := p.Ty.Underlying().(*types.Pointer)
	if !ok {
		specFail("deref of non-pointer %s", p.T)
	}
	el := pt.Elem()
	if sst, ok := el.Underlying().(*types.Struct); ok && x.u.sortOf(el) != "Time" {
		si := x.u.structSort(el)
		var parts []string
		for i := 0; i < sst.NumFields(); i++ {
			parts = append(parts, x.readField(st, p, el, true, sst.Field(i), emitFacts).T)
		}
		if len(parts) == 0 {
			parts = []string{"0"}
		}
		return Val{T: "(mk_" + si.sort + " " + strings.Join(parts, " ") + ")", S: si.sort, Ty: el}
	}
	s := x.u.sortOf(el)
	key := "Cell_" + sortId(s)
	x.u.regHeap(key, "(Array Int "+s+")")
	v := Val{T: "(select " + x.getHeap(st, key) + " " + p.T + ")", S: s, Ty: el}
	if emitFacts {
		x.emitTypeFact(st, v)
	}
	return v
}

func (x *Exec) writeCell(st *State, p Val, v Val) {
	key := "Cell_" + sortId(v.S)
	x.u.regHeap(key, "(Array Int "+v.S+")")
	x.heapStore(st, key, p.T, v.T)
}

func (x *Exec) heapStore(st *State, key, ref, val string) {
	old := x.getHeap(st, key)
	n := x.u.fresh(key, x.u.heapKeys[key])
	x.u.fact("(= " + n + " (store " + old + " " + ref + " " + val + "))")
	st.heap[key] = n
}

func (x *Exec) writeField(st *State, p Val, owner types.Type, f *types.Var, v Val) {
	key := x.u.heapKeyForField(f, owner)
	x.heapStore(st, key, p.T, v.T)
}

// writeStruct stores all fields of a struct value at pointer p.
func (x *Exec) writeStruct(st *State, p Val, owner types.Type, v Val) {
	sst := owner.Underlying().(*types.Struct)
	si := x.u.structSort(owner)
	for i := 0; i < sst.NumFields(); i++ {
		f := sst.Field(i)
		fv := Val{T: "(" + si.sort + "." + sanitize(f.Name()) + " " + v.T + ")", S: x.u.sortOf(f.Type()), Ty: f.Type()}
		x.writeField(st, p, owner, f, fv)
	}
}

// updStruct returns v with field f replaced.
func (x *Exec) updStruct(owner types.Type, v Val, f *types.Var, nv Val) Val {
	si := x.u.structSort(owner)
	var parts []string
	for _, ff := range si.fields {
		if ff == f {
			parts = append(parts, nv.T)
		} else {
			parts = append(parts, "("+si.sort+"."+sanitize(ff.Name())+" "+v.T+")")
		}
	}
	return x.bind(Val{T: "(mk_" + si.sort + " " + strings.Join(parts, " ") + ")", S: si.sort, Ty: owner}, "su")
}

func (x *Exec) mapStore(st *State, m Val, k, v Val) {
	mt := m.Ty.Underlying().(*types.Map)
	dom, val, _, _ := x.u.mapKeys(mt)
	od, ov := x.getHeap(st, dom), x.getHeap(st, val)
	x.heapStore(st, dom, m.T, fmt.Sprintf("(store (select %s %s) %s true)", od, m.T, k.T))
	x.heapStore(st, val, m.T, fmt.Sprintf("(store (select %s %s) %s %s)", ov, m.T, k.T, v.T))
}

func (x *Exec) mapDelete(st *State, m Val, k Val) {
	mt := m.Ty.Underlying().(*types.Map)
	dom, _, _, _ := x.u.mapKeys(mt)
	od := x.getHeap(st, dom)
	x.heapStore(st, dom, m.T, fmt.Sprintf("(store (select %s %s) %s false)", od, m.T, k.T))
}

func (x *Exec) mapHas(st *State, m Val, k Val) string {
	mt := m.Ty.Underlying().(*types.Map)
	dom, _, _, _ := x.u.mapKeys(mt)
	return fmt.Sprintf("(select (select %s %s) %s)", x.getHeap(st, dom), m.T, k.T)
}

// chanKeys: ghost send counter and last-sent value of the channels carrying elem, one pair of
// heap arrays per Go element type (channels of different element types never alias).
func (x *Exec) chanKeys(elem types.Type) (nsent, last, es string) {
	es = "Int"
	id := "unknown"
	if elem != nil {
		es = x.u.sortOf(elem)
		id = sanitize(types.TypeString(elem, func(p *types.Package) string { return p.Name() }))
	}
	nsent = "chan.nsent." + id
	last = "chan.last." + id
	x.u.regHeap(nsent, "(Array Int Int)")
	x.u.regHeap(last, "(Array Int "+es+")")
	return
}

func chanElem(t types.Type) types.Type {
	if t != nil {
		if ct, ok := t.Underlying().(*types.Chan); ok {
			return ct.Elem()
		}
	}
	return nil
}

// mapcardFn declares the cardinality function of key sets of sort ks with its update axioms.
func (x *Exec) mapcardFn(ks string) string {
	fn := "mapcard_" + sortId(ks)
	if !x.u.sortSeen[fn] {
		x.u.sortSeen[fn] = true
		x.u.sortDecl = append(x.u.sortDecl, fmt.Sprintf("(declare-fun %s ((Array %s Bool)) Int)", fn, ks),
			fmt.Sprintf("(assert (forall ((d (Array %s Bool))) (! (>= (%s d) 0) :pattern ((%s d)))))", ks, fn, fn),
			fmt.Sprintf("(assert (forall ((d (Array %s Bool)) (k %s)) (! (= (%s (store d k true)) (+ (%s d) (ite (select d k) 0 1))) :pattern ((%s (store d k true))))))", ks, ks, fn, fn, fn),
			fmt.Sprintf("(assert (forall ((d (Array %s Bool)) (k %s)) (! (= (%s (store d k false)) (- (%s d) (ite (select d k) 1 0))) :pattern ((%s (store d k false))))))", ks, ks, fn, fn, fn),
			// a set with a member is not empty
			fmt.Sprintf("(assert (forall ((d (Array %s Bool)) (k %s)) (! (=> (select d k) (>= (%s d) 1)) :pattern ((%s d) (select d k)))))", ks, ks, fn, fn))
	}
	return fn
}
