package main

// Verification of function literals inside a function under contract: `closure [go]#n`
// blocks name the n-th `go func() {...}()` literal of the function (the EVM watcher keeps
// its logic in goroutine bodies inside Run). The literal's body is verified as its own unit;
// the variables it captures from the enclosing function are arbitrary values constrained
// only by the closure's requires clauses.

import (
	"fmt"
	"go/ast"
	"go/types"
)

func findGoLits(body *ast.BlockStmt) []*ast.FuncLit {
	var out []*ast.FuncLit
	ast.Inspect(body, func(n ast.Node) bool {
		if g, ok := n.(*ast.GoStmt); ok {
			if fl, ok := g.Call.Fun.(*ast.FuncLit); ok {
				out = append(out, fl)
			}
		}
		return true
	})
	return out
}

func (e *Engine) verifyClosure(parent *Contract, cc *Contract) (res *UnitResult) {
	name := shortPkg(parent.Pkg) + "." + parent.Key() + "$" + cc.ClosureKey + fmt.Sprintf("#%d", cc.ClosureOrd)
	u := newUnit(e, name)
	x := newExec(e, u)
	x.libUsed = map[string]bool{}
	x.usedContracts = map[string]*Contract{}
	res = &UnitResult{Unit: u, Contract: cc, Exec: x}
	u.exec, u.contract = x, cc
	defer func() {
		if r := recover(); r != nil {
			if se, ok := r.(specErr); ok {
				res.Err = "contract-stale: " + se.msg
				return
			}
			panic(r)
		}
	}()
	fn, fd, pkg := e.lookupFunc(parent)
	if fn == nil || fd == nil || fd.Body == nil {
		res.Err = "contract-stale: function " + parent.Key() + " not found"
		return
	}
	var lit *ast.FuncLit
	var forSig *types.Signature
	switch cc.ClosureKey {
	case "lit":
		// the n-th function literal of the function that is not the operand of a go statement
		golits := map[*ast.FuncLit]bool{}
		for _, gl := range findGoLits(fd.Body) {
			golits[gl] = true
		}
		var lits []*ast.FuncLit
		ast.Inspect(fd.Body, func(n ast.Node) bool {
			if fl, ok := n.(*ast.FuncLit); ok && !golits[fl] {
				lits = append(lits, fl)
			}
			return true
		})
		if cc.ClosureOrd < 1 || cc.ClosureOrd > len(lits) {
			res.Err = fmt.Sprintf("contract-stale: %s has %d function literals, contract names #%d", parent.Key(), len(lits), cc.ClosureOrd)
			return
		}
		lit = lits[cc.ClosureOrd-1]
		if cc.Delegates != "" {
			// syntactic obligation: the literal forwards to the named callee and does nothing else
			ok := false
			if len(lit.Body.List) == 1 {
				if rs, isRet := lit.Body.List[0].(*ast.ReturnStmt); isRet && len(rs.Results) == 1 {
					if call, isCall := ast.Unparen(rs.Results[0]).(*ast.CallExpr); isCall && normKey(e.nodeSrc(call.Fun)) == normKey(cc.Delegates) {
						ok = true
						for _, a := range call.Args {
							// arguments are variables or field paths of variables, nothing computed
							pure := true
							ast.Inspect(a, func(n ast.Node) bool {
								switch n.(type) {
								case nil, *ast.Ident, *ast.SelectorExpr, *ast.ParenExpr:
									return true
								}
								pure = false
								return false
							})
							if !pure {
								ok = false
							}
						}
					}
				}
			}
			goal := "true"
			if !ok {
				goal = "false"
			}
			u.oblige("delegates:"+cc.Delegates, "frame", "the literal's body is exactly: return "+cc.Delegates+"(<variables>)", (&Frame{x: x}).pos(lit.Pos()), "true", goal)
		}
	case "for":
		// the n-th bare `for { ... }` loop of the function (wherever it is nested): an event
		// loop verified on its own, started from arbitrary values of the variables it uses
		type bareFor struct {
			st   *ast.ForStmt
			encl ast.Node
		}
		var fors []bareFor
		var stack []ast.Node
		ast.Inspect(fd, func(n ast.Node) bool {
			if n == nil {
				stack = stack[:len(stack)-1]
				return true
			}
			stack = append(stack, n)
			if f, ok := n.(*ast.ForStmt); ok && f.Cond == nil && f.Init == nil && f.Post == nil {
				var encl ast.Node = fd
				for i := len(stack) - 1; i >= 0; i-- {
					if fl, ok := stack[i].(*ast.FuncLit); ok {
						encl = fl
						break
					}
				}
				fors = append(fors, bareFor{f, encl})
			}
			return true
		})
		if cc.ClosureOrd < 1 || cc.ClosureOrd > len(fors) {
			res.Err = fmt.Sprintf("contract-stale: %s has %d bare for-loops, contract names #%d", parent.Key(), len(fors), cc.ClosureOrd)
			return
		}
		bf := fors[cc.ClosureOrd-1]
		if fl, ok := bf.encl.(*ast.FuncLit); ok {
			forSig, _ = pkg.TypesInfo.Types[fl].Type.(*types.Signature)
		} else {
			forSig, _ = fn.Type().(*types.Signature)
		}
		lit = &ast.FuncLit{Type: &ast.FuncType{Func: bf.st.Pos(), Params: &ast.FieldList{}}, Body: &ast.BlockStmt{Lbrace: bf.st.Pos(), List: []ast.Stmt{bf.st}, Rbrace: bf.st.End() - 1}}
	case "go":
		lits := findGoLits(fd.Body)
		if cc.ClosureOrd < 1 || cc.ClosureOrd > len(lits) {
			res.Err = fmt.Sprintf("contract-stale: %s has %d go-literals, contract names #%d", parent.Key(), len(lits), cc.ClosureOrd)
			return
		}
		lit = lits[cc.ClosureOrd-1]
	default:
		res.Err = "contract-stale: unsupported closure key " + cc.ClosureKey
		return
	}
	sig, _ := pkg.TypesInfo.Types[lit].Type.(*types.Signature)
	if forSig != nil {
		sig = forSig
	}
	if sig == nil {
		res.Err = "contract-stale: closure has no signature"
		return
	}
	cc.Pkg = parent.Pkg
	fr := &Frame{x: x, pkg: pkg, info: pkg.TypesInfo, contract: cc, sig: sig, safe: cc.NoPanic, fnName: name,
		specNames: map[string]Val{}, loopOrd: map[string]int{}, atOrd: map[string]int{}, closureOrd: map[string]int{},
		inlineStack: []string{fn.FullName()}, body: lit.Body, unitBody: lit.Body, unitLo: fd.Pos(), unitHi: fd.End()}
	st := x.newState()
	// captured variables: every variable of the enclosing function used inside the literal
	seen := map[*types.Var]bool{}
	ast.Inspect(lit.Body, func(n ast.Node) bool {
		id, ok := n.(*ast.Ident)
		if !ok {
			return true
		}
		v, ok := pkg.TypesInfo.Uses[id].(*types.Var)
		if !ok || v.IsField() || seen[v] {
			return true
		}
		if v.Pos() >= lit.Pos() && v.Pos() <= lit.End() {
			return true // declared inside the literal
		}
		if v.Pkg() != nil && v.Parent() == v.Pkg().Scope() {
			return true // package-level
		}
		seen[v] = true
		hv := x.havocVal("cap_"+v.Name(), v.Type())
		x.emitTypeFact(st, hv)
		x.declVar(st, v, hv)
		u.inputs = append(u.inputs, ModelVar{Name: v.Name(), Term: hv.T, Sort: hv.S, Ty: v.Type()})
		return true
	})
	// parameters of the enclosing function are in scope for the closure's clauses even when the
	// literal itself does not mention them
	if psig, ok := fn.Type().(*types.Signature); ok {
		for i := 0; i < psig.Params().Len(); i++ {
			v := psig.Params().At(i)
			if seen[v] || v.Name() == "" || v.Name() == "_" {
				continue
			}
			seen[v] = true
			hv := x.havocVal("cap_"+v.Name(), v.Type())
			x.emitTypeFact(st, hv)
			x.declVar(st, v, hv)
		}
	}
	mods := map[string]string{"*": "all"}
	fr.modsInfo = mods
	x.entry = st.clone()
	envIn := fr.specEnv(st)
	for _, r := range cc.Requires {
		u.fact(envIn.Bool(r.Expr))
	}
	vac := u.oblige("vacuity:requires-sat", "vacuity", "requires and type invariants are satisfiable", fr.pos(lit.Pos()), "true", "true")
	vac.ExpectSat = true
	f := fr.block(st, lit.Body.List)
	_ = f
	for _, as := range cc.Ats {
		if !x.atHits[as] {
			o := u.oblige("at["+normKey(as.Key)+"]:unmatched", "contract-stale", "at-clause key matches no statement or call of the closure", fr.pos(lit.Pos()), "true", "false")
			o.Clause = "contract-stale: at [" + as.Key + "] matches nothing"
		}
	}
	for _, ls := range cc.Loops {
		if !x.loopHits[ls] {
			o := u.oblige("loop["+normKey(ls.Key)+"]:unmatched", "contract-stale", "loop clause key matches no loop of the closure", fr.pos(lit.Pos()), "true", "false")
			o.Clause = "contract-stale: loop [" + ls.Key + "] matches no loop"
		}
	}
	return
}
