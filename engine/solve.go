package main

// Solver back ends: each obligation is one SMT-LIB script; z3 4.8.12, z3-new 5.1.0
// and cvc5 1.0 are raced, first definite answer wins.

import (
	"bytes"
	"context"
	"fmt"
	"os"
	"os/exec"
	"path/filepath"
	"strings"
	"sync"
	"time"
)

type SolveResult struct {
	Status  string // unsat | sat | unknown
	Backend string
	Time    float64
	Output  string // raw output of the deciding back end (models etc.)
	All     map[string]string
}

type backend struct {
	name string
	args func(file string, timeoutS int) []string
}

var backends = []backend{
	{"z3-new", func(f string, t int) []string { return []string{"z3-new", fmt.Sprintf("-T:%d", t), f} }},
	{"z3", func(f string, t int) []string { return []string{"z3", fmt.Sprintf("-T:%d", t), f} }},
	{"cvc5", func(f string, t int) []string {
		return []string{"cvc5", "--enum-inst", fmt.Sprintf("--tlimit=%d", t*1000), f}
	}},
}

func firstLine(s string) string {
	for _, l := range strings.Split(s, "\n") {
		l = strings.TrimSpace(l)
		if l == "" || strings.HasPrefix(l, "WARNING") {
			continue
		}
		return l
	}
	return ""
}

// runBackend runs one solver on a script file.
func runBackend(ctx context.Context, b backend, file string, timeoutS int) (string, string) {
	a := b.args(file, timeoutS)
	cctx, cancel := context.WithTimeout(ctx, time.Duration(timeoutS+2)*time.Second)
	defer cancel()
	cmd := exec.CommandContext(cctx, a[0], a[1:]...)
	var out bytes.Buffer
	cmd.Stdout = &out
	cmd.Stderr = &out
	_ = cmd.Run()
	o := out.String()
	fl := firstLine(o)
	switch fl {
	case "unsat", "sat":
		return fl, o
	}
	if strings.HasPrefix(fl, "(error") {
		return "error", o
	}
	return "unknown", o
}

// solveScript races the back ends on the script. cvc5 cannot parse some z3-only
// constructs; its "unknown"/error is simply ignored when another back end decides.
func solveScript(dir, name, script string, timeoutS int, only []string) SolveResult {
	file := filepath.Join(dir, name+".smt2")
	_ = os.WriteFile(file, []byte(script), 0o644)
	// cvc5 needs produce-models before set-logic; scripts are written so that works for all.
	ctx, cancel := context.WithCancel(context.Background())
	defer cancel()
	type r struct {
		b      string
		st, o  string
		t      float64
	}
	ch := make(chan r, len(backends))
	n := 0
	for _, b := range backends {
		if len(only) > 0 {
			ok := false
			for _, o := range only {
				if o == b.name {
					ok = true
				}
			}
			if !ok {
				continue
			}
		}
		n++
		go func(b backend) {
			t0 := time.Now()
			st, o := runBackend(ctx, b, file, timeoutS)
			ch <- r{b.name, st, o, time.Since(t0).Seconds()}
		}(b)
	}
	res := SolveResult{Status: "unknown", All: map[string]string{}}
	for i := 0; i < n; i++ {
		x := <-ch
		res.All[x.b] = x.st
		if x.st == "unsat" || x.st == "sat" {
			res.Status, res.Backend, res.Time, res.Output = x.st, x.b, x.t, x.o
			cancel()
			return res
		}
		if res.Output == "" || x.st == "error" {
			res.Output = x.o
		}
		if x.st == "error" && x.b != "cvc5" {
			res.Status = "error"
		}
		res.Time = x.t
	}
	return res
}

// parallel map over obligations
func parallelDo(n, workers int, f func(i int)) {
	var wg sync.WaitGroup
	ch := make(chan int)
	for w := 0; w < workers; w++ {
		wg.Add(1)
		go func() {
			defer wg.Done()
			for i := range ch {
				f(i)
			}
		}()
	}
	for i := 0; i < n; i++ {
		ch <- i
	}
	close(ch)
	wg.Wait()
}

// confirmWith runs a single named back end (optionally with a z3 random seed) on a script.
func confirmWith(dir, name, script, be string, seed, timeoutS int) string {
	file := filepath.Join(dir, name+".smt2")
	_ = os.WriteFile(file, []byte(script), 0o644)
	var a []string
	switch be {
	case "cvc5":
		a = []string{"cvc5", "--enum-inst", fmt.Sprintf("--tlimit=%d", timeoutS*1000), file}
	case "z3":
		a = []string{"z3", fmt.Sprintf("-T:%d", timeoutS), fmt.Sprintf("smt.random_seed=%d", seed), file}
	default:
		a = []string{"z3-new", fmt.Sprintf("-T:%d", timeoutS), fmt.Sprintf("smt.random_seed=%d", seed), file}
	}
	ctx, cancel := context.WithTimeout(context.Background(), time.Duration(timeoutS+2)*time.Second)
	defer cancel()
	cmd := exec.CommandContext(ctx, a[0], a[1:]...)
	var out bytes.Buffer
	cmd.Stdout = &out
	cmd.Stderr = &out
	_ = cmd.Run()
	fl := firstLine(out.String())
	if fl == "sat" || fl == "unsat" {
		return fl
	}
	return "unknown"
}
