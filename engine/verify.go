package main

import (
	"fmt"
	"go/ast"
	"go/token"
	"go/types"
	"sort"
	"strings"

	"golang.org/x/tools/go/packages"
)

type UnitResult struct {
	Unit     *Unit
	Contract *Contract
	Exec     *Exec
	Err      string
}

// lookupFunc finds the *types.Func and declaration for a contract.
func (e *Engine) lookupFunc(c *Contract) (*types.Func, *ast.FuncDecl, *packages.Package) {
	p := e.pkgs[c.Pkg]
	if p == nil || p.Types == nil {
		return nil, nil, nil
	}
	e.indexDecls()
	for fn, fd := range e.funcDecls {
		if fn.Pkg().Path() != c.Pkg || fn.Name() != c.Name {
			continue
		}
		sig := fn.Type().(*types.Signature)
		if recvString(sig) == c.RecvType {
			return fn, fd, p
		}
	}
	return nil, nil, p
}

func (e *Engine) verifyContract(c *Contract) (res *UnitResult) {
	name := shortPkg(c.Pkg) + "." + c.Key()
	u := newUnit(e, name)
	x := newExec(e, u)
	x.libUsed = map[string]bool{}
	x.usedContracts = map[string]*Contract{}
	res = &UnitResult{Unit: u, Contract: c, Exec: x}
	u.exec, u.contract = x, c
	defer func() {
		if r := recover(); r != nil {
			if se, ok := r.(specErr); ok {
				res.Err = "contract-stale: " + se.msg
				return
			}
			panic(r)
		}
	}()
	if c.Kind == "lemma" {
		e.verifyLemma(c, x)
		return
	}
	fn, fd, pkg := e.lookupFunc(c)
	if fn == nil || fd == nil || fd.Body == nil {
		res.Err = "contract-stale: function " + c.Key() + " not found in " + c.Pkg
		return
	}
	e.syntacticClauses(c, fd, u, x)
	if c.Trusted {
		return
	}
	if len(c.CallsOnly) > 0 {
		var cpk []string
		for k := range c.CallsOnly {
			cpk = append(cpk, k)
		}
		sort.Strings(cpk)
		nBad := 0
		defer func() {
			if nBad == 0 {
				for _, k := range cpk {
					u.oblige("calls-only:"+k+":respected", "frame", "of "+k+" the body calls only "+strings.Join(c.CallsOnly[k], ", "), (&Frame{x: x}).pos(fd.Pos()), "true", "true")
				}
			}
		}()
		ast.Inspect(fd.Body, func(n ast.Node) bool {
			call, ok := n.(*ast.CallExpr)
			if !ok {
				return true
			}
			var callee *types.Func
			switch f := ast.Unparen(call.Fun).(type) {
			case *ast.Ident:
				callee, _ = pkg.TypesInfo.Uses[f].(*types.Func)
			case *ast.SelectorExpr:
				callee, _ = pkg.TypesInfo.Uses[f.Sel].(*types.Func)
			}
			if callee == nil || callee.Pkg() == nil {
				return true
			}
			allowed, listed := c.CallsOnly[callee.Pkg().Path()]
			if !listed {
				return true
			}
			for _, a := range allowed {
				if a == callee.Name() {
					return true
				}
			}
			nBad++
			u.oblige("calls-only:"+callee.Pkg().Path()+":"+callee.Name(), "frame", "of "+callee.Pkg().Path()+" the body calls only "+strings.Join(allowed, ", "), (&Frame{x: x}).pos(call.Pos()), "true", "false")
			return true
		})
	}
	sig := fn.Type().(*types.Signature)
	fr := &Frame{x: x, pkg: pkg, info: pkg.TypesInfo, contract: c, sig: sig, safe: c.NoPanic, fnName: fn.FullName(),
		specNames: map[string]Val{}, loopOrd: map[string]int{}, atOrd: map[string]int{}, closureOrd: map[string]int{},
		inlineStack: []string{fn.FullName()}, body: fd.Body, unitLo: fd.Pos(), unitHi: fd.End()}
	st := x.newState()
	// parameters
	bindParam := func(o *types.Var, cname string) {
		v := x.havocVal("in_"+o.Name(), o.Type())
		x.emitTypeFact(st, v)
		x.declVar(st, o, v)
		if cname != "" && cname != "_" {
			fr.specNames[cname] = v
		}
		u.inputs = append(u.inputs, ModelVar{Name: cname, Term: v.T, Sort: v.S, Ty: v.Ty})
	}
	if fd.Recv != nil && len(fd.Recv.List) == 1 {
		cn := ""
		if c.Recv != nil {
			cn = c.Recv.Name
		}
		if len(fd.Recv.List[0].Names) == 1 {
			if o, ok := pkg.TypesInfo.Defs[fd.Recv.List[0].Names[0]].(*types.Var); ok {
				bindParam(o, cn)
			}
		} else if cn != "" {
			v := x.havocVal("in_recv", sig.Recv().Type())
			x.emitTypeFact(st, v)
			fr.specNames[cn] = v
		}
	}
	pi := 0
	if fd.Type.Params != nil {
		for _, fld := range fd.Type.Params.List {
			if len(fld.Names) == 0 {
				pi++
				continue
			}
			for _, nm := range fld.Names {
				cn := ""
				if pi < len(c.Params) {
					cn = c.Params[pi].Name
				}
				if o, ok := pkg.TypesInfo.Defs[nm].(*types.Var); ok {
					bindParam(o, cn)
				} else if cn != "" && cn != "_" { // blank parameter
					v := x.havocVal("in_"+cn, sig.Params().At(pi).Type())
					fr.specNames[cn] = v
				}
				pi++
			}
		}
	}
	if len(c.Params) != sig.Params().Len() {
		res.Err = fmt.Sprintf("contract-stale: %s has %d parameters, contract names %d", c.Key(), sig.Params().Len(), len(c.Params))
		return
	}
	if fd.Type.Results != nil {
		for _, fld := range fd.Type.Results.List {
			for _, nm := range fld.Names {
				if o, ok := pkg.TypesInfo.Defs[nm].(*types.Var); ok {
					x.declVar(st, o, x.zeroVal(o.Type()))
					fr.named = append(fr.named, o)
				}
			}
		}
	}
	// declared write footprint
	mods := map[string]string{}
	for _, m := range c.Modifies {
		if m == "*" {
			mods["*"] = "all"
			continue
		}
		if strings.HasPrefix(m, "arg:") {
			continue // caller-side place (only used on assumed contracts)
		}
		fresh := strings.HasPrefix(m, "fresh ")
		for _, k := range x.placeKeys(pkg, m) {
			if fresh {
				mods[k] = "fresh"
			} else {
				mods[k] = "all"
			}
		}
	}
	modsChan := false
	for _, m := range c.Modifies {
		if strings.TrimSpace(m) == "chan" {
			modsChan = true
		}
	}
	fr.modsInfo = mods
	x.entry = st.clone()
	// requires
	envIn := &SpecEnv{x: x, pkg: pkg, names: fr.specNames, st: st, old: x.entry, bound: map[string]bool{}}
	for _, r := range c.Requires {
		u.fact(envIn.Bool(r.Expr))
	}
	for _, w := range c.Witness {
		wv := x.bind(envIn.Eval(w.Expr), "wit_"+w.Label)
		u.inputs = append(u.inputs, ModelVar{Name: w.Label, Term: wv.T, Sort: wv.S, Ty: wv.Ty})
	}
	vac := u.oblige("vacuity:requires-sat", "vacuity", "requires and type invariants are satisfiable", fr.pos(fd.Pos()), "true", "true")
	vac.ExpectSat = true
	// body
	f := fr.block(st, fd.Body.List)
	rets := f.rets
	if f.next != nil {
		var vals []Val
		for _, nv := range fr.named {
			{
				gv, _ := x.getVar(f.next, nv)
				vals = append(vals, gv)
			}
		}
		rets = append(rets, retState{f.next, vals})
	}
	if len(rets) == 0 {
		u.notes = append(u.notes, "function has no normal exit")
		return
	}
	var states []*State
	for _, r := range rets {
		states = append(states, r.st)
	}
	nres := sig.Results().Len()
	resVals := make([]Val, nres)
	for i := 0; i < nres; i++ {
		t := sig.Results().At(i).Type()
		s := u.sortOf(t)
		n := u.fresh("result", s)
		for _, r := range rets {
			if i < len(r.vals) {
				u.fact("(=> " + r.st.pc + " (= " + n + " " + r.vals[i].T + "))")
			}
		}
		resVals[i] = Val{T: n, S: s, Ty: t}
		if len(rets) == 1 && i < len(rets[0].vals) {
			// single return: what is known about how the value was built stays known
			if f, ok := x.fmtOf[rets[0].vals[i].T]; ok {
				x.setFmt(n, f)
			}
		}
	}
	exit := x.merge(states)
	if len(states) == 1 {
		exit = states[0]
	}
	exit = fr.runDefers(exit)
	// ensures
	names := map[string]Val{}
	// locals of the function at exit (a local never declared on a path reads as its zero value);
	// parameter names denote entry values and win over locals of the same name
	for k, v := range fr.specEnv(exit).names {
		names[k] = v
	}
	for k, v := range fr.specNames {
		names[k] = v
	}
	if len(c.Results) != nres && len(c.Results) != 0 {
		res.Err = fmt.Sprintf("contract-stale: %s has %d results, contract names %d", c.Key(), nres, len(c.Results))
		return
	}
	for i, r := range c.Results {
		if r.Name != "_" {
			names[r.Name] = resVals[i]
		}
	}
	envOut := &SpecEnv{x: x, pkg: pkg, names: names, st: exit, old: x.entry, bound: map[string]bool{}}
	for k, en := range c.Ensures {
		lab := en.Label
		if lab == "" {
			lab = fmt.Sprint(k + 1)
		}
		t, err := fr.evalClause(envOut, en)
		if err != nil {
			o := u.oblige("ensures:"+lab, "contract-stale", en.Src, fr.pos(fd.Pos()), exit.pc, "false")
			o.Clause = "contract-stale: " + err.Error()
			continue
		}
		u.oblige("ensures:"+lab, "ensures", en.Src, fr.pos(fd.Pos()), exit.pc, t)
	}
	// lock balance: every mutex hold counter is back at its entry value
	{
		var mks []string
		for k := range x.mutexKeys {
			mks = append(mks, k)
		}
		sort.Strings(mks)
		for _, k := range mks {
			q := "m$q" + fmt.Sprint(x.nextQ())
			u.oblige("lock-balance:"+strings.TrimPrefix(k, "mutex:"), "lock-balance", "every mutex the function locks is released on every return path", fr.pos(fd.Pos()), exit.pc,
				fmt.Sprintf("(forall ((%s Int)) (= (select %s %s) (select %s %s)))", q, x.getHeap(exit, k), q, x.heapInit(k), q))
		}
	}
	if _, all := mods["*"]; !all {
		var keys []string
		for k := range exit.heap {
			keys = append(keys, k)
		}
		sort.Strings(keys)
		for _, k := range keys {
			if exit.heap[k] == x.heapInit(k) || mods[k] == "all" {
				continue
			}
			if strings.HasPrefix(k, "chan.") && modsChan {
				continue
			}
			if strings.HasPrefix(k, "ghost.") {
				continue
			}
			if strings.HasPrefix(k, "bytes.") || strings.HasPrefix(k, "Cell_") || k == "big.Int.v" {
				// library object state: only objects allocated here can be touched through the handlers
			}
			q := "r$q" + fmt.Sprint(x.nextQ())
			goal := fmt.Sprintf("(forall ((%s Int)) (=> (and (<= 0 %s) (< %s %s)) (= (select %s %s) (select %s %s))))", q, q, q, x.next0, exit.heap[k], q, x.heapInit(k), q)
			u.oblige("frame:"+k, "frame", "modifies clause does not list "+k, fr.pos(fd.Pos()), exit.pc, goal)
		}
		if x.havocAllSeen {
			// each place where the whole heap was havoc'd has to be unreachable under the requires
			for _, hpc := range x.havocAllPCs {
				u.oblige("frame:*", "frame", "body havocs the whole heap (call without contract) but the contract has a modifies clause", fr.pos(fd.Pos()), hpc, "false")
			}
			if len(x.havocAllPCs) == 0 {
				u.oblige("frame:*", "frame", "body havocs the whole heap (call without contract) but the contract has a modifies clause", fr.pos(fd.Pos()), exit.pc, "false")
			}
		}
	}
	if len(x.assignedGlobals) > 0 {
		u.oblige("frame:package-vars", "frame", "assigns package-level variables "+strings.Join(x.assignedGlobals, ","), fr.pos(fd.Pos()), "true", "false")
	}
	// an at-clause whose key matched no statement or call proves nothing: report it
	for _, as := range c.Ats {
		if !x.atHits[as] {
			o := u.oblige("at["+normKey(as.Key)+"]:unmatched", "contract-stale", "at-clause key matches no statement or call of the function", fr.pos(fd.Pos()), "true", "false")
			o.Clause = "contract-stale: at [" + as.Key + "] matches nothing in " + c.Key()
		}
	}
	for _, ls := range c.Loops {
		if !x.loopHits[ls] {
			o := u.oblige("loop["+normKey(ls.Key)+"]:unmatched", "contract-stale", "loop clause key matches no loop of the function", fr.pos(fd.Pos()), "true", "false")
			o.Clause = "contract-stale: loop [" + ls.Key + "] matches no loop in " + c.Key()
		}
	}
	cov := u.oblige("vacuity:exit-reachable", "vacuity", "some execution reaches a normal exit", fr.pos(fd.Pos()), exit.pc, "true")
	cov.ExpectSat = true
	return
}

func shortPkg(p string) string {
	p = strings.TrimPrefix(p, "github.com/alephium/wormhole-fork/")
	p = strings.TrimPrefix(p, "node/pkg/")
	p = strings.TrimPrefix(p, "node/cmd/")
	return p
}

// verifyLemma proves requires ==> ensures for universally quantified parameters.
// With "induction n": additionally assumes the ensures for n-1 when n > 0 (n ranges over naturals).
func (e *Engine) verifyLemma(c *Contract, x *Exec) {
	u := x.u
	pkg := e.pkgs[c.Pkg]
	st := x.newState()
	x.entry = st.clone()
	names := map[string]Val{}
	for _, p := range c.Params {
		ty, s := x.resolveTypeName(pkg, p.TypeSrc)
		v := Val{T: u.fresh("lm_"+p.Name, s), S: s, Ty: ty}
		if tf := u.typeFact(v); tf != "" {
			u.fact(tf)
		}
		names[p.Name] = v
		u.inputs = append(u.inputs, ModelVar{Name: p.Name, Term: v.T, Sort: v.S, Ty: ty})
	}
	env := &SpecEnv{x: x, pkg: pkg, names: names, st: st, old: x.entry, bound: map[string]bool{}}
	for _, r := range c.Requires {
		u.fact(env.Bool(r.Expr))
	}
	for _, use := range c.UsesLemmas {
		lem := e.findLemma(pkg, use.Fun)
		if lem == nil {
			specFail("unknown lemma %s", use.Fun)
		}
		sub := env.child()
		sub.pkg = e.pkgs[lem.Pkg]
		nm := map[string]Val{}
		for i, p := range lem.Params {
			nm[p.Name] = env.Eval(use.Args[i])
		}
		sub.names = nm
		u.fact(lemmaInstance(sub, lem))
		x.usedContracts[lem.Pkg+"::lemma:"+lem.Name] = lem
	}
	if c.Induct != "" {
		iv, ok := names[c.Induct]
		if !ok {
			specFail("induction variable %s is not a parameter", c.Induct)
		}
		u.fact("(>= " + iv.T + " 0)")
		// induction hypothesis: the whole lemma for Induct-1
		n2 := map[string]Val{}
		for k, v := range names {
			n2[k] = v
		}
		n2[c.Induct] = Val{T: "(- " + iv.T + " 1)", S: "Int", Ty: iv.Ty}
		env2 := &SpecEnv{x: x, pkg: pkg, names: n2, st: st, old: x.entry, bound: map[string]bool{}}
		var hyp []string
		for _, r := range c.Requires {
			hyp = append(hyp, env2.Bool(r.Expr))
		}
		var con []string
		for _, en := range c.Ensures {
			con = append(con, env2.Bool(en.Expr))
		}
		h := "true"
		if len(hyp) > 0 {
			h = "(and " + strings.Join(hyp, " ") + ")"
		}
		u.fact(fmt.Sprintf("(=> (> %s 0) (=> %s (and %s)))", iv.T, h, strings.Join(con, " ")))
	}
	vac := u.oblige("vacuity:requires-sat", "vacuity", "lemma hypotheses are satisfiable", c.File, "true", "true")
	vac.ExpectSat = true
	for k, en := range c.Ensures {
		lab := en.Label
		if lab == "" {
			lab = fmt.Sprint(k + 1)
		}
		u.oblige("ensures:"+lab, "lemma", en.Src, fmt.Sprintf("%s:%d", c.File, c.Line), "true", env.Bool(en.Expr))
	}
}

// syntacticClauses discharges the clauses that speak about the shape of start-up / wiring
// code the engine does not execute symbolically (wiring, fresh-elements): decided on the AST.
func (e *Engine) syntacticClauses(c *Contract, fd *ast.FuncDecl, u *Unit, x *Exec) {
	pos := func(p token.Pos) string { return (&Frame{x: x}).pos(p) }
	for _, w := range c.Wiring {
		n := 0
		ast.Inspect(fd.Body, func(nd ast.Node) bool {
			call, ok := nd.(*ast.CallExpr)
			if !ok || normKey(e.nodeSrc(call.Fun)) != normKey(w.Callee) {
				return true
			}
			n++
			subst := func(t string) string {
				for i := len(call.Args) - 1; i >= 0; i-- {
					t = strings.ReplaceAll(t, fmt.Sprintf("$arg%d", i), e.nodeSrc(call.Args[i]))
				}
				return normKey(t)
			}
			goal := "true"
			if subst(w.Lhs) != subst(w.Rhs) || strings.Contains(subst(w.Lhs), "$arg") {
				goal = "false"
			}
			u.oblige("wiring:"+w.Callee+":"+w.Lhs+" == "+w.Rhs, "frame", "every call of "+w.Callee+": "+w.Lhs+" == "+w.Rhs+" (source text)", pos(call.Pos()), "true", goal)
			return true
		})
		if n == 0 {
			u.oblige("wiring:"+w.Callee+":unmatched", "contract-stale", "wiring clause names a callee the function never calls", pos(fd.Pos()), "true", "false").Clause = "contract-stale: no call of " + w.Callee
		}
	}
	for _, nm := range c.FreshElems {
		n := 0
		ast.Inspect(fd.Body, func(nd ast.Node) bool {
			as, ok := nd.(*ast.AssignStmt)
			if !ok {
				return true
			}
			for i, l := range as.Lhs {
				ix, ok := ast.Unparen(l).(*ast.IndexExpr)
				if !ok {
					continue
				}
				id, ok := ast.Unparen(ix.X).(*ast.Ident)
				if !ok || id.Name != nm {
					continue
				}
				n++
				goal := "false"
				if len(as.Rhs) == len(as.Lhs) {
					if call, ok := ast.Unparen(as.Rhs[i]).(*ast.CallExpr); ok {
						if f, ok := call.Fun.(*ast.Ident); ok && f.Name == "make" {
							goal = "true"
						}
					}
				}
				u.oblige("fresh-elements:"+nm, "frame", "every element stored into "+nm+" is a fresh make(...)", pos(as.Pos()), "true", goal)
			}
			return true
		})
		if n == 0 {
			u.oblige("fresh-elements:"+nm+":unmatched", "contract-stale", "no element of "+nm+" is ever assigned", pos(fd.Pos()), "true", "false").Clause = "contract-stale: no assignment to an element of " + nm
		}
	}
}
