package main

// Assumed contracts of library functions (DESIGN Appendix C). Every handler here is an
// assumption and is listed in the evidence of any unit that reaches it.

import (
	"fmt"
	"go/ast"
	"go/types"
	"strings"
)

type libHandler func(fr *Frame, st *State, c *ast.CallExpr, fn *types.Func) []Val

var libHandlers = map[string]libHandler{}
var libMods = map[string]func(fr *Frame, c *ast.CallExpr, ms *modSet, markLhs func(ast.Expr)){}

const ethc = "github.com/ethereum/go-ethereum/common"
const ethcrypto = "github.com/ethereum/go-ethereum/crypto"

func (x *Exec) used(name string) { x.libUsed[name] = true }

func errT() types.Type { return types.Universe.Lookup("error").Type() }

func (x *Exec) errVal(base string) Val { return x.havocVal(base, errT()) }

func bytesT() types.Type { return types.NewSlice(types.Typ[types.Uint8]) }

func (x *Exec) bytesSort() string { return x.u.sliceSort("Int") }

// recvOf evaluates the receiver expression of a method call.
func (fr *Frame) recvOf(st *State, c *ast.CallExpr) Val {
	se := ast.Unparen(c.Fun).(*ast.SelectorExpr)
	return fr.expr(st, se.X)
}

func (x *Exec) readerKeys() (string, string) {
	x.u.regHeap("bytes.Reader.s", "(Array Int "+x.bytesSort()+")")
	x.u.regHeap("bytes.Reader.i", "(Array Int Int)")
	return "bytes.Reader.s", "bytes.Reader.i"
}

func (x *Exec) bufKey() string {
	x.u.regHeap("bytes.Buffer.b", "(Array Int "+x.bytesSort()+")")
	return "bytes.Buffer.b"
}

func libNew(fr *Frame, st *State, p Val, t types.Type) {
	x := fr.x
	if n, ok := t.(*types.Named); ok && n.Obj().Pkg() != nil {
		switch n.Obj().Pkg().Path() + "." + n.Obj().Name() {
		case "bytes.Buffer":
			x.used("bytes.Buffer")
			x.heapStore(st, x.bufKey(), p.T, fmt.Sprintf("(mk_%s %s 0 false)", x.bytesSort(), x.emptyArray("Int")))
			x.tagDyn(p, types.NewPointer(t))
		case "math/big.Int":
			x.used("math/big.Int")
			x.u.regHeap("big.Int.v", "(Array Int Int)")
			x.heapStore(st, "big.Int.v", p.T, "0")
		}
	}
}

func (x *Exec) tagDyn(p Val, t types.Type) {
	x.need("dyntype")
	x.u.fact(fmt.Sprintf("(= (dyntype %s) %d)", p.T, x.eng.typeTag(t)))
}

// beSum builds sum_{j<k} arr[off+j]*256^(k-1-j)
func beSum(arr, off string, k int) string {
	var parts []string
	for j := 0; j < k; j++ {
		idx := off
		if j > 0 {
			idx = fmt.Sprintf("(+ %s %d)", off, j)
		}
		w := pow2str(int64(8 * (k - 1 - j)))
		if w == "1" {
			parts = append(parts, fmt.Sprintf("(select %s %s)", arr, idx))
		} else {
			parts = append(parts, fmt.Sprintf("(* %s (select %s %s))", w, arr, idx))
		}
	}
	if len(parts) == 1 {
		return parts[0]
	}
	return "(+ " + strings.Join(parts, " ") + ")"
}

// beByte is byte j (0 = most significant) of the k-byte big-endian encoding of val.
func beByte(val string, k, j int) string {
	sh := pow2str(int64(8 * (k - 1 - j)))
	if sh == "1" {
		return "(mod " + val + " 256)"
	}
	return "(mod (div " + val + " " + sh + ") 256)"
}

// fixedSize of a static type for encoding/binary: (bytes, isInt)
func binSize(t types.Type) (int, bool) {
	if t == nil {
		return 0, false
	}
	switch tt := t.Underlying().(type) {
	case *types.Basic:
		if b, _, ok := intBits(t); ok && tt.Kind() != types.Int && tt.Kind() != types.Uint && tt.Kind() != types.Uintptr {
			return b / 8, true
		}
		if tt.Kind() == types.Bool {
			return 1, true
		}
	case *types.Array:
		if isByte(tt.Elem()) {
			return int(tt.Len()), false
		}
	}
	return 0, false
}

// appendBytes returns contents ++ extra (prelude function catbytes).
func (x *Exec) appendBytes(contents, extra string) string {
	x.need("catbytes")
	return x.bind(Val{T: "(catbytes " + contents + " " + extra + ")", S: x.bytesSort()}, "buf").T
}

// appendBE returns contents ++ BE_k(val) (prelude function appendbe).
func (x *Exec) appendBE(contents string, k int, val string) string {
	x.need("appendbe")
	return x.bind(Val{T: fmt.Sprintf("(appendbe %s %d %s)", contents, k, val), S: x.bytesSort()}, "buf").T
}

func init() {
	H := libHandlers

	readerMods := func(fr *Frame, c *ast.CallExpr, ms *modSet, markLhs func(ast.Expr)) {
		_, ik := fr.x.readerKeys()
		ms.heapKeys[ik] = true
		for _, a := range c.Args {
			switch e := ast.Unparen(a).(type) {
			case *ast.SliceExpr:
				markLhs(e.X)
			case *ast.Ident:
				markLhs(e)
			case *ast.UnaryExpr:
				markLhs(e.X)
			}
		}
	}
	libMods["(*bytes.Reader).Read"] = readerMods
	libMods["(*bytes.Reader).ReadByte"] = readerMods
	libMods["encoding/binary.Read"] = readerMods
	bufMods := func(fr *Frame, c *ast.CallExpr, ms *modSet, markLhs func(ast.Expr)) {
		ms.heapKeys[fr.x.bufKey()] = true
	}
	libMods["(*bytes.Buffer).Write"] = bufMods
	libMods["(*bytes.Buffer).WriteByte"] = bufMods
	libMods["encoding/binary.Write"] = bufMods

	H["bytes.NewReader"] = func(fr *Frame, st *State, c *ast.CallExpr, fn *types.Func) []Val {
		x := fr.x
		x.used("bytes.NewReader/Reader: position model (s,i)")
		b := fr.expr(st, c.Args[0])
		r := x.alloc(st, "reader")
		sk, ik := x.readerKeys()
		x.heapStore(st, sk, r, b.T)
		x.heapStore(st, ik, r, "0")
		return []Val{{T: r, S: "Int", Ty: fn.Type().(*types.Signature).Results().At(0).Type()}}
	}
	H["(*bytes.Reader).Len"] = func(fr *Frame, st *State, c *ast.CallExpr, fn *types.Func) []Val {
		x := fr.x
		r := fr.recvOf(st, c)
		sk, ik := x.readerKeys()
		s := "(select " + x.getHeap(st, sk) + " " + r.T + ")"
		i := "(select " + x.getHeap(st, ik) + " " + r.T + ")"
		return []Val{x.bind(Val{T: fmt.Sprintf("(ite (>= %s (slen_Int %s)) 0 (- (slen_Int %s) %s))", i, s, s, i), S: "Int", Ty: types.Typ[types.Int]}, "rlen")}
	}
	H["(*bytes.Reader).ReadByte"] = func(fr *Frame, st *State, c *ast.CallExpr, fn *types.Func) []Val {
		x := fr.x
		r := fr.recvOf(st, c)
		sk, ik := x.readerKeys()
		s := x.bind(Val{T: "(select " + x.getHeap(st, sk) + " " + r.T + ")", S: x.bytesSort()}, "rs").T
		i := x.bind(Val{T: "(select " + x.getHeap(st, ik) + " " + r.T + ")", S: "Int"}, "ri").T
		x.u.fact("(>= " + i + " 0)")
		okc := "(< " + i + " (slen_Int " + s + "))"
		bv := x.havocVal("byte", types.Typ[types.Uint8])
		err := x.errVal("err")
		x.u.gfact(st.pc, fmt.Sprintf("(ite %s (and (= %s (select (sarr_Int %s) %s)) (= %s 0)) (and (= %s 0) (> %s 0)))", okc, bv.T, s, i, err.T, bv.T, err.T))
		x.heapStore(st, ik, r.T, fmt.Sprintf("(ite %s (+ %s 1) %s)", okc, i, i))
		return []Val{bv, err}
	}
	H["(*bytes.Reader).Read"] = func(fr *Frame, st *State, c *ast.CallExpr, fn *types.Func) []Val {
		x := fr.x
		r := fr.recvOf(st, c)
		sk, ik := x.readerKeys()
		s := x.bind(Val{T: "(select " + x.getHeap(st, sk) + " " + r.T + ")", S: x.bytesSort()}, "rs").T
		i := x.bind(Val{T: "(select " + x.getHeap(st, ik) + " " + r.T + ")", S: "Int"}, "ri").T
		x.u.fact("(>= " + i + " 0)")
		// destination
		dstE := ast.Unparen(c.Args[0])
		var base ast.Expr = dstE
		full := true
		if se, ok := dstE.(*ast.SliceExpr); ok {
			base = se.X
			full = se.Low == nil && se.High == nil
		}
		b := fr.expr(st, base)
		if !full {
			fr.unsupported(st, c, "Reader.Read into partial slice", nil)
		}
		plen := x.lenOf(st, b).T
		rem := fmt.Sprintf("(- (slen_Int %s) %s)", s, i)
		eof := "(>= " + i + " (slen_Int " + s + "))"
		n := x.havocVal("n", types.Typ[types.Int])
		err := x.errVal("err")
		x.u.gfact(st.pc, fmt.Sprintf("(ite %s (and (= %s 0) (> %s 0)) (and (= %s (ite (<= %s %s) %s %s)) (= %s 0)))", eof, n.T, err.T, n.T, plen, rem, plen, rem, err.T))
		x.heapStore(st, ik, r.T, "(+ "+i+" "+n.T+")")
		// new destination contents
		if nn, ok := isFixedSort(b.S); ok {
			nb := x.u.fresh("rd", b.S)
			q := "j$q" + fmt.Sprint(x.nextQ())
			x.u.fact(fmt.Sprintf("(forall ((%s Int)) (! (= (at%d %s %s) (ite (and (<= 0 %s) (< %s %s)) (select (sarr_Int %s) (+ %s %s)) (at%d %s %s))) :pattern ((at%d %s %s))))",
				q, nn, nb, q, q, q, n.T, s, i, q, nn, b.T, q, nn, nb, q))
			fr.assign(st, base, Val{T: nb, S: b.S, Ty: b.Ty})
		} else if strings.HasPrefix(b.S, "Slice_") {
			arr := x.u.fresh("rd", "(Array Int Int)")
			q := "j$q" + fmt.Sprint(x.nextQ())
			x.u.fact(fmt.Sprintf("(forall ((%s Int)) (! (= (select %s %s) (ite (and (<= 0 %s) (< %s %s)) (select (sarr_Int %s) (+ %s %s)) (select (sarr_Int %s) %s))) :pattern ((select %s %s))))",
				q, arr, q, q, q, n.T, s, i, q, b.T, q, arr, q))
			fr.assign(st, base, x.bind(Val{T: fmt.Sprintf("(mk_%s %s (slen_Int %s) false)", b.S, arr, b.T), S: b.S, Ty: b.Ty}, "rdst"))
		} else {
			fr.unsupported(st, c, "Reader.Read destination", nil)
		}
		return []Val{n, err}
	}
	H["encoding/binary.Read"] = func(fr *Frame, st *State, c *ast.CallExpr, fn *types.Func) []Val {
		x := fr.x
		x.used("encoding/binary.Read: big-endian fixed-size decode via io.ReadFull")
		rt := fr.typeOf(c.Args[0])
		r := fr.expr(st, c.Args[0])
		err := x.errVal("err")
		if rt == nil || rt.String() != "*bytes.Reader" {
			fr.unsupported(st, c, "binary.Read from non-bytes.Reader", nil)
			return []Val{err}
		}
		if !strings.HasSuffix(fr.src(c.Args[1]), "BigEndian") {
			fr.unsupported(st, c, "binary.Read byte order", nil)
			return []Val{err}
		}
		ue, ok := ast.Unparen(c.Args[2]).(*ast.UnaryExpr)
		if !ok {
			fr.unsupported(st, c, "binary.Read target", nil)
			return []Val{err}
		}
		tt := fr.typeOf(ue.X)
		k, isInt := binSize(tt)
		if k == 0 {
			fr.unsupported(st, c, "binary.Read of "+tt.String(), nil)
			return []Val{err}
		}
		sk, ik := x.readerKeys()
		s := x.bind(Val{T: "(select " + x.getHeap(st, sk) + " " + r.T + ")", S: x.bytesSort()}, "rs").T
		i := x.bind(Val{T: "(select " + x.getHeap(st, ik) + " " + r.T + ")", S: "Int"}, "ri").T
		x.u.fact("(>= " + i + " 0)")
		okc := x.namePC(fmt.Sprintf("(>= (- (slen_Int %s) %s) %d)", s, i, k))
		x.u.gfact(st.pc, fmt.Sprintf("(= (= %s 0) %s)", err.T, okc))
		ni := x.havocVal("ri", types.Typ[types.Int])
		x.u.gfact(st.pc, fmt.Sprintf("(ite %s (= %s (+ %s %d)) (and (<= %s %s) (<= %s (ite (>= %s (slen_Int %s)) %s (slen_Int %s)))))", okc, ni.T, i, k, i, ni.T, ni.T, i, s, i, s))
		x.heapStore(st, ik, r.T, ni.T)
		old := fr.expr(st, ue.X)
		var nv Val
		if isInt {
			nv = x.havocVal("rd", tt)
			for j := 0; j < k; j++ {
				x.u.fact(fmt.Sprintf("(=> %s (and (<= 0 (select (sarr_Int %s) (+ %s %d))) (<= (select (sarr_Int %s) (+ %s %d)) 255)))", okc, s, i, j, s, i, j))
			}
			val := beSum("(sarr_Int "+s+")", i, k)
			if _, signed, _ := intBits(tt); signed {
				val = wrapTo(val, tt)
			}
			x.u.gfact(st.pc, fmt.Sprintf("(= %s (ite %s %s %s))", nv.T, okc, val, old.T))
			if _, signed, _ := intBits(tt); !signed {
				// the same fact byte by byte (base-256 digits are unique)
				for j := 0; j < k; j++ {
					x.u.gfact(st.pc, fmt.Sprintf("(=> %s (= (select (sarr_Int %s) (+ %s %d)) %s))", okc, s, i, j, beByte(nv.T, k, j)))
				}
			}
		} else {
			nn := int64(k)
			nb := x.u.fresh("rd", old.S)
			q := "j$q" + fmt.Sprint(x.nextQ())
			x.u.fact(fmt.Sprintf("(forall ((%s Int)) (! (= (at%d %s %s) (ite (and %s (<= 0 %s) (< %s %d)) (select (sarr_Int %s) (+ %s %s)) (at%d %s %s))) :pattern ((at%d %s %s))))",
				q, nn, nb, q, okc, q, q, nn, s, i, q, nn, old.T, q, nn, nb, q))
			nv = Val{T: nb, S: old.S, Ty: tt}
		}
		fr.assign(st, ue.X, nv)
		return []Val{err}
	}
	H["(*bytes.Buffer).Write"] = func(fr *Frame, st *State, c *ast.CallExpr, fn *types.Func) []Val {
		x := fr.x
		x.used("bytes.Buffer: contents model (Write appends, never fails)")
		r := fr.recvOf(st, c)
		p := fr.expr(st, c.Args[0])
		key := x.bufKey()
		cur := x.bind(Val{T: "(select " + x.getHeap(st, key) + " " + r.T + ")", S: x.bytesSort()}, "bc").T
		x.heapStore(st, key, r.T, x.appendBytes(cur, p.T))
		return []Val{x.lenOf(st, p), {T: "0", S: "Int", Ty: errT()}}
	}
	H["(*bytes.Buffer).WriteByte"] = func(fr *Frame, st *State, c *ast.CallExpr, fn *types.Func) []Val {
		x := fr.x
		x.used("bytes.Buffer: contents model (Write appends, never fails)")
		r := fr.recvOf(st, c)
		p := fr.expr(st, c.Args[0])
		key := x.bufKey()
		cur := x.bind(Val{T: "(select " + x.getHeap(st, key) + " " + r.T + ")", S: x.bytesSort()}, "bc").T
		x.heapStore(st, key, r.T, x.appendBE(cur, 1, p.T))
		return []Val{{T: "0", S: "Int", Ty: errT()}}
	}
	H["(*bytes.Buffer).Bytes"] = func(fr *Frame, st *State, c *ast.CallExpr, fn *types.Func) []Val {
		x := fr.x
		r := fr.recvOf(st, c)
		key := x.bufKey()
		v := x.bind(Val{T: "(select " + x.getHeap(st, key) + " " + r.T + ")", S: x.bytesSort(), Ty: bytesT()}, "bb")
		x.emitTypeFact(st, v)
		return []Val{v}
	}
	H["(*bytes.Buffer).Len"] = func(fr *Frame, st *State, c *ast.CallExpr, fn *types.Func) []Val {
		x := fr.x
		r := fr.recvOf(st, c)
		key := x.bufKey()
		return []Val{x.bind(Val{T: "(slen_Int (select " + x.getHeap(st, key) + " " + r.T + "))", S: "Int", Ty: types.Typ[types.Int]}, "bl")}
	}
	// binary.Write(w, order, data): w must be a *bytes.Buffer; data's size is taken from the
	// box created at the interface conversion (boxsize/boxint), or from the static type.
	H["encoding/binary.Write"] = func(fr *Frame, st *State, c *ast.CallExpr, fn *types.Func) []Val {
		x := fr.x
		x.used("encoding/binary.Write: big-endian fixed-size encode into *bytes.Buffer; error iff size unknown")
		x.need("boxsize")
		x.need("dyntype")
		w := fr.expr(st, c.Args[0])
		err := x.errVal("err")
		if !strings.HasSuffix(fr.src(c.Args[1]), "order") && !strings.HasSuffix(fr.src(c.Args[1]), "BigEndian") {
			fr.unsupported(st, c, "binary.Write byte order", nil)
			return []Val{err}
		}
		dt := fr.typeOf(c.Args[2])
		key := x.bufKey()
		isBuf := fmt.Sprintf("(= (dyntype %s) %d)", w.T, x.eng.typeTag(types.NewPointer(x.eng.namedType("bytes", "Buffer"))))
		cur := x.bind(Val{T: "(select " + x.getHeap(st, key) + " " + w.T + ")", S: x.bytesSort()}, "bc").T
		if k, isInt := binSize(dt); k > 0 && isInt {
			d := fr.expr(st, c.Args[2])
			val := d.T
			if _, signed, _ := intBits(dt); signed {
				val = "(mod " + d.T + " " + pow2[k*8] + ")"
			}
			nb := x.appendBE(cur, k, val)
			x.u.gfact(st.pc, "(=> "+isBuf+" (= "+err.T+" 0))")
			hv := x.u.fresh("bufh", x.bytesSort())
			x.heapStore(st, key, w.T, "(ite "+isBuf+" "+nb+" "+hv+")")
			return []Val{err}
		}
		// interface-typed data: size and value come from the box
		d := fr.expr(st, c.Args[2])
		x.need("appendbe")
		res := fmt.Sprintf("(appendbe %s (boxsize %s) (boxint %s))", cur, d.T, d.T)
		okc := fmt.Sprintf("(and %s (or (= (boxsize %s) 1) (= (boxsize %s) 2) (= (boxsize %s) 4) (= (boxsize %s) 8)))", isBuf, d.T, d.T, d.T, d.T)
		x.u.gfact(st.pc, "(=> "+okc+" (= "+err.T+" 0))")
		hv := x.u.fresh("bufh", x.bytesSort())
		x.heapStore(st, key, w.T, "(ite "+okc+" "+res+" "+hv+")")
		return []Val{err}
	}

	// ---- crypto / eth common ----
	H[ethcrypto+".Keccak256Hash"] = func(fr *Frame, st *State, c *ast.CallExpr, fn *types.Func) []Val {
		x := fr.x
		x.used("crypto.Keccak256Hash: uninterpreted keccak over the byte content")
		x.need("keccak")
		if len(c.Args) != 1 {
			return []Val{fr.unsupported(st, c, "variadic keccak", fn.Type().(*types.Signature).Results().At(0).Type())}
		}
		b := fr.expr(st, c.Args[0])
		x.u.fixedSort(32)
		return []Val{x.bind(Val{T: "(keccak " + b.T + ")", S: "A32", Ty: fn.Type().(*types.Signature).Results().At(0).Type()}, "kh")}
	}
	H[ethcrypto+".Keccak256"] = func(fr *Frame, st *State, c *ast.CallExpr, fn *types.Func) []Val {
		x := fr.x
		x.used("crypto.Keccak256: uninterpreted keccak over the byte content")
		x.need("keccak")
		if len(c.Args) != 1 {
			return []Val{fr.unsupported(st, c, "variadic keccak", bytesT())}
		}
		b := fr.expr(st, c.Args[0])
		x.u.fixedSort(32)
		return []Val{x.bind(Val{T: "(bytes32 (keccak " + b.T + "))", S: x.bytesSort(), Ty: bytesT()}, "kb")}
	}
	H["("+ethc+".Hash).Bytes"] = func(fr *Frame, st *State, c *ast.CallExpr, fn *types.Func) []Val {
		x := fr.x
		h := fr.recvOf(st, c)
		return []Val{x.bind(Val{T: "(bytes32 " + h.T + ")", S: x.bytesSort(), Ty: bytesT()}, "hb")}
	}
	H["("+ethc+".Address).Bytes"] = func(fr *Frame, st *State, c *ast.CallExpr, fn *types.Func) []Val {
		x := fr.x
		h := fr.recvOf(st, c)
		return []Val{x.bind(Val{T: "(bytes20 " + h.T + ")", S: x.bytesSort(), Ty: bytesT()}, "ab")}
	}
	H[ethc+".BytesToAddress"] = func(fr *Frame, st *State, c *ast.CallExpr, fn *types.Func) []Val {
		x := fr.x
		x.used("common.BytesToAddress: uninterpreted b2a (last 20 bytes, left padded)")
		x.u.fixedSort(20)
		x.need("b2a")
		b := fr.expr(st, c.Args[0])
		return []Val{x.bind(Val{T: "(b2a " + b.T + ")", S: "A20", Ty: fn.Type().(*types.Signature).Results().At(0).Type()}, "addr")}
	}
	H[ethcrypto+".Ecrecover"] = func(fr *Frame, st *State, c *ast.CallExpr, fn *types.Func) []Val {
		x := fr.x
		x.used("crypto.Ecrecover: err==nil <=> len(hash)==32 && len(sig)==65 && ecrec_ok; result = ecrec(hash,sig), 65 bytes")
		x.u.fixedSort(32)
		x.u.fixedSort(65)
		x.need("ecrec")
		h := fr.expr(st, c.Args[0])
		s := fr.expr(st, c.Args[1])
		pk := x.havocVal("pk", bytesT())
		err := x.errVal("err")
		okc := fmt.Sprintf("(and (= (slen_Int %s) 32) (= (slen_Int %s) 65) (ecrec_ok (from32 %s) (from65 %s)))", h.T, s.T, h.T, s.T)
		x.u.gfact(st.pc, fmt.Sprintf("(= (= %s 0) %s)", err.T, okc))
		x.u.gfact(st.pc, fmt.Sprintf("(=> (= %s 0) (and (= %s (ecrec (from32 %s) (from65 %s))) (= (slen_Int %s) 65)))", err.T, pk.T, h.T, s.T, pk.T))
		return []Val{pk, err}
	}
	H["encoding/hex.EncodeToString"] = func(fr *Frame, st *State, c *ast.CallExpr, fn *types.Func) []Val {
		x := fr.x
		x.used("hex.EncodeToString: uninterpreted hexs over the byte content")
		x.need("hexs")
		x.u.declSort("GoString")
		b := fr.expr(st, c.Args[0])
		return []Val{x.bind(Val{T: "(hexs " + b.T + ")", S: "GoString", Ty: types.Typ[types.String]}, "hex")}
	}
	// ---- time ----
	H["(time.Time).Unix"] = func(fr *Frame, st *State, c *ast.CallExpr, fn *types.Func) []Val {
		x := fr.x
		x.used("time.Time: (unix seconds, nanoseconds) pair")
		t := fr.recvOf(st, c)
		v := x.bind(Val{T: "(time.unix " + t.T + ")", S: "Int", Ty: types.Typ[types.Int64]}, "unix")
		x.emitTypeFact(st, v)
		return []Val{v}
	}
	H["time.Unix"] = func(fr *Frame, st *State, c *ast.CallExpr, fn *types.Func) []Val {
		x := fr.x
		x.used("time.Time: (unix seconds, nanoseconds) pair; time.Unix normalises nsec into [0,1e9)")
		x.u.declSort("Time")
		s := fr.expr(st, c.Args[0])
		n := fr.expr(st, c.Args[1])
		rt := fn.Type().(*types.Signature).Results().At(0).Type()
		if n.T == "0" {
			return []Val{x.bind(Val{T: "(time.mk " + s.T + " 0)", S: "Time", Ty: rt}, "t")}
		}
		t := x.havocVal("t", rt)
		x.u.gfact(st.pc, fmt.Sprintf("(=> (and (<= 0 %s) (< %s 1000000000)) (= %s (time.mk %s %s)))", n.T, n.T, t.T, s.T, n.T))
		x.u.gfact(st.pc, fmt.Sprintf("(= (+ (* 1000000000 (time.unix %s)) (time.nsec %s)) (+ (* 1000000000 %s) %s))", t.T, t.T, s.T, n.T))
		return []Val{t}
	}
	H["encoding/hex.Encode"] = func(fr *Frame, st *State, c *ast.CallExpr, fn *types.Func) []Val {
		x := fr.x
		x.used("hex.Encode(dst, src): dst = bytes of hexs(src) when len(dst) == 2*len(src)")
		x.need("hexs")
		x.need("str2bytes")
		dst := fr.expr(st, c.Args[0])
		src := fr.expr(st, c.Args[1])
		fr.safety(st, "index", fr.src(c), c, fmt.Sprintf("(>= (slen_Int %s) (* 2 (slen_Int %s)))", dst.T, src.T))
		hv := x.havocVal("hexdst", bytesT())
		x.u.gfact(st.pc, fmt.Sprintf("(= (slen_Int %s) (slen_Int %s))", hv.T, dst.T))
		nv := x.bind(Val{T: fmt.Sprintf("(ite (= (slen_Int %s) (* 2 (slen_Int %s))) (str2bytes (hexs %s)) %s)", dst.T, src.T, src.T, hv.T), S: dst.S, Ty: dst.Ty}, "hexdst")
		fr.assign(st, c.Args[0], nv)
		return []Val{x.bind(Val{T: "(* 2 (slen_Int " + src.T + "))", S: "Int", Ty: types.Typ[types.Int]}, "n")}
	}
}
