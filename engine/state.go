package main

import (
	"fmt"
	"go/types"
	"sort"
	"strings"
)

// State is a symbolic program state. pc is a Bool term; all assumptions live in the
// unit's fact list guarded by the pc under which they were made.
type State struct {
	pc    string
	vars  map[types.Object]Val
	heap  map[string]string // heap key -> current array term (missing = initial incarnation)
	next  string            // allocation frontier
	ghost map[string]Val
}

func (x *Exec) newState() *State {
	st := &State{pc: "true", vars: map[types.Object]Val{}, heap: map[string]string{}, next: x.next0, ghost: map[string]Val{}}
	// ghost call counters: every counter name any contract declares starts at an arbitrary
	// non-negative value (all of them are present from the start so that loop heads havoc them)
	for _, n := range x.eng.countNames() {
		c := "cnt0_" + sanitize(n)
		if !x.cntDeclared[c] {
			if x.cntDeclared == nil {
				x.cntDeclared = map[string]bool{}
			}
			x.cntDeclared[c] = true
			x.u.decls = append(x.u.decls, "(declare-const "+c+" Int)")
			x.u.fact("(>= " + c + " 0)")
		}
		st.ghost["count:"+n] = Val{T: c, S: "Int"}
	}
	return st
}

func (x *Exec) countInc(st *State, name string) {
	cur, ok := st.ghost["count:"+name]
	if !ok {
		panic("ghost counter " + name + " not registered")
	}
	st.ghost["count:"+name] = x.bind(Val{T: "(+ " + cur.T + " 1)", S: "Int"}, "cnt")
}

func (e *Engine) countNames() []string {
	if e.cntNames == nil {
		m := map[string]bool{"cache.Set": true}
		for _, c := range e.contracts {
			if c.Counts != "" {
				m[c.Counts] = true
			}
		}
		for k := range m {
			e.cntNames = append(e.cntNames, k)
		}
		sort.Strings(e.cntNames)
	}
	return e.cntNames
}

func (s *State) clone() *State {
	n := &State{pc: s.pc, vars: make(map[types.Object]Val, len(s.vars)), heap: make(map[string]string, len(s.heap)), next: s.next, ghost: make(map[string]Val, len(s.ghost))}
	for k, v := range s.vars {
		n.vars[k] = v
	}
	for k, v := range s.heap {
		n.heap[k] = v
	}
	for k, v := range s.ghost {
		n.ghost[k] = v
	}
	return n
}

func (x *Exec) heapInit(key string) string {
	name := "H0_" + sanitize(key)
	if !x.heapDeclared[key] {
		x.heapDeclared[key] = true
		srt, ok := x.u.heapKeys[key]
		if !ok {
			panic("unregistered heap key " + key)
		}
		// declared up-front so that every obligation sees it
		x.u.decls = append(x.u.decls, fmt.Sprintf("(declare-const %s %s)", name, srt))
		x.heapTyping(key, name)
	}
	return name
}

// heapTyping asserts the type invariant of a fresh incarnation of a heap array where the
// element type has one that reads inside quantified contracts cannot state themselves.
func (x *Exec) heapTyping(key, arr string) {
	if strings.HasPrefix(key, "mutex:") {
		// hold counters are never negative
		x.u.fact(fmt.Sprintf("(forall ((r Int)) (! (>= (select %s r) 0) :pattern ((select %s r))))", arr, arr))
	}
	if strings.HasPrefix(key, "M_") && strings.HasSuffix(key, ".dom") {
		// the nil map has no keys (writes to it panic, so this holds in every incarnation)
		x.u.fact(fmt.Sprintf("(forall ((k %s)) (! (not (select (select %s 0) k)) :pattern ((select (select %s 0) k))))", mapDomKeySort(x.u.heapKeys[key]), arr, arr))
	}
	if key == "db.store.val" {
		// every stored value is a byte string
		srt := x.u.heapKeys[key]
		ids := strings.TrimSuffix(strings.TrimPrefix(srt, "(Array Int (Array "), " "+x.bytesSort()+"))")
		sel := fmt.Sprintf("(select (sarr_Int (select (select %s d) id)) i)", arr)
		x.u.fact(fmt.Sprintf("(forall ((d Int) (id %s) (i Int)) (! (and (<= 0 %s) (<= %s 255)) :pattern (%s)))", ids, sel, sel, sel))
		ln := fmt.Sprintf("(slen_Int (select (select %s d) id))", arr)
		x.u.fact(fmt.Sprintf("(forall ((d Int) (id %s)) (! (>= %s 0) :pattern (%s)))", ids, ln, ln))
	}
}

func (x *Exec) getHeap(st *State, key string) string {
	if t, ok := st.heap[key]; ok {
		return t
	}
	return x.heapInit(key)
}

func (x *Exec) havocHeap(st *State, key string) {
	st.heap[key] = x.u.fresh(key, x.u.heapKeys[key])
	x.heapTyping(key, st.heap[key])
}

func (x *Exec) and(a, b string) string {
	if a == "true" {
		return b
	}
	if b == "true" {
		return a
	}
	if a == "false" || b == "false" {
		return "false"
	}
	return "(and " + a + " " + b + ")"
}

func not(a string) string {
	if a == "true" {
		return "false"
	}
	if a == "false" {
		return "true"
	}
	return "(not " + a + ")"
}

// namePC binds a path condition to a fresh Bool constant (keeps terms small).
func (x *Exec) namePC(t string) string {
	if len(t) < 40 {
		return t
	}
	n := x.u.fresh("pc", "Bool")
	x.u.fact("(= " + n + " " + t + ")")
	return n
}

// merge joins states at a control-flow join.
func (x *Exec) merge(states []*State) *State {
	var live []*State
	for _, s := range states {
		if s != nil && s.pc != "false" {
			live = append(live, s)
		}
	}
	if len(live) == 0 {
		return nil
	}
	if len(live) == 1 {
		return live[0]
	}
	out := live[0].clone()
	pcs := ""
	for _, s := range live {
		pcs += " " + s.pc
	}
	out.pc = x.namePC("(or" + pcs + ")")
	// vars
	varKeys := map[types.Object]bool{}
	for _, s := range live {
		for k := range s.vars {
			varKeys[k] = true
		}
	}
	var vks []types.Object
	for k := range varKeys {
		vks = append(vks, k)
	}
	sort.Slice(vks, func(i, j int) bool { return vks[i].Pos() < vks[j].Pos() })
	for _, k := range vks {
		same := true
		first, ok0 := live[0].vars[k]
		for _, s := range live {
			v, ok := s.vars[k]
			if ok != ok0 || v.T != first.T {
				same = false
			}
		}
		if same {
			continue
		}
		var any Val
		for _, s := range live {
			if v, ok := s.vars[k]; ok {
				any = v
			}
		}
		n := x.u.fresh(k.Name(), any.S)
		for _, s := range live {
			if v, ok := s.vars[k]; ok {
				x.u.fact("(=> " + s.pc + " (= " + n + " " + v.T + "))")
			} else if tv, isVar := k.(*types.Var); isVar && !x.eng.isCellVar(tv) {
				// not declared on this path: reads (only possible from contracts) see the zero value
				if z := x.zeroVal(tv.Type()); z.S == any.S {
					x.u.fact("(=> " + s.pc + " (= " + n + " " + z.T + "))")
				}
			}
		}
		out.vars[k] = Val{T: n, S: any.S, Ty: any.Ty}
	}
	// heap
	hk := map[string]bool{}
	for _, s := range live {
		for k := range s.heap {
			hk[k] = true
		}
	}
	var hks []string
	for k := range hk {
		hks = append(hks, k)
	}
	sort.Strings(hks)
	for _, k := range hks {
		same := true
		first := x.getHeap(live[0], k)
		for _, s := range live {
			if x.getHeap(s, k) != first {
				same = false
			}
		}
		if same {
			out.heap[k] = first
			continue
		}
		n := x.u.fresh(k, x.u.heapKeys[k])
		for _, s := range live {
			x.u.fact("(=> " + s.pc + " (= " + n + " " + x.getHeap(s, k) + "))")
		}
		out.heap[k] = n
	}
	// next
	sameN := true
	for _, s := range live {
		if s.next != live[0].next {
			sameN = false
		}
	}
	if !sameN {
		n := x.u.fresh("next", "Int")
		for _, s := range live {
			x.u.fact("(=> " + s.pc + " (= " + n + " " + s.next + "))")
		}
		out.next = n
	}
	// ghost
	gk := map[string]bool{}
	for _, s := range live {
		for k := range s.ghost {
			gk[k] = true
		}
	}
	var gks []string
	for k := range gk {
		gks = append(gks, k)
	}
	sort.Strings(gks)
	for _, k := range gks {
		same := true
		first := live[0].ghost[k]
		for _, s := range live {
			if s.ghost[k].T != first.T {
				same = false
			}
		}
		if same {
			continue
		}
		var any Val
		for _, s := range live {
			if v, ok := s.ghost[k]; ok {
				any = v
			}
		}
		n := x.u.fresh("g_"+k, any.S)
		for _, s := range live {
			if v, ok := s.ghost[k]; ok {
				x.u.fact("(=> " + s.pc + " (= " + n + " " + v.T + "))")
			} else if strings.HasPrefix(k, "mcnt:") {
				x.u.fact("(=> " + s.pc + " (= " + n + " 0))") // monitor never touched on this path
			} else if strings.HasPrefix(k, "defer:") || strings.HasPrefix(k, "mrel:") {
				x.u.fact("(=> " + s.pc + " (not " + n + "))") // defer statement not executed on this path
			}
		}
		out.ghost[k] = Val{T: n, S: any.S, Ty: any.Ty}
	}
	return out
}

// alloc returns a fresh reference.
func (x *Exec) alloc(st *State, base string) string {
	r := x.u.fresh(base, "Int")
	x.u.fact("(= " + r + " " + st.next + ")")
	nn := x.u.fresh("next", "Int")
	x.u.fact("(= " + nn + " (+ " + st.next + " 1))")
	st.next = nn
	return r
}

// mapDomKeySort extracts K from the sort "(Array Int (Array K Bool))" of a map's dom array.
func mapDomKeySort(srt string) string {
	s := strings.TrimPrefix(srt, "(Array Int (Array ")
	return strings.TrimSuffix(s, " Bool))")
}
