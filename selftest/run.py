#!/usr/bin/env python3
"""Must-fail self-test: every patch under selftest/patches/ breaks one property while
compiling and keeping the pinned suite green; applied to a scratch copy of the repository
(never to /repo), the property's check must report a VIOLATION naming the expected
obligation. Usage: run.py [PROP ...]   (no args = all)"""
import os, re, shutil, subprocess, sys, tempfile, glob, concurrent.futures

VERIF = os.path.dirname(os.path.dirname(os.path.abspath(__file__)))
REPO = os.environ.get("VERIF_REPO", "/repo")
DIRS = ["node", "explorer-backend", "ethereum/contracts", "alephium/contracts"]

def run_one(patch):
    meta = {}
    for l in open(patch):
        m = re.match(r"#\s*(\w+):\s*(.*)", l)
        if m: meta[m.group(1)] = m.group(2).strip()
        elif not l.startswith("#"): break
    prop, expect = meta["property"], meta["expect"]
    tmp = tempfile.mkdtemp(prefix="govc-selftest-")
    try:
        for d in DIRS:
            dst = os.path.join(tmp, "repo", d)
            os.makedirs(os.path.dirname(dst), exist_ok=True)
            shutil.copytree(os.path.join(REPO, d), dst, symlinks=True)
        r = subprocess.run(["patch", "-p1", "-s", "-d", os.path.join(tmp, "repo"), "-i", patch], capture_output=True, text=True)
        if r.returncode != 0:
            # the tree differs from the one the patch was cut for: nothing can be concluded
            return (patch, prop, None, "SKIPPED, patch does not apply to this tree: " + (r.stdout + r.stderr)[:120])
        out = subprocess.run([os.path.join(VERIF, "bin/govc"), "check", "-repo", os.path.join(tmp, "repo"), "-verif", VERIF,
                              "-out", os.path.join(tmp, "evidence"), prop, "quick"], capture_output=True, text=True)
        failed = [l for l in out.stdout.splitlines() if l.startswith("FAILED ")]
        hit = any(e.strip() in l for l in failed for e in expect.split("||"))
        ok = out.returncode == 1 and hit
        return (patch, prop, ok, "; ".join(l.split(" ::")[0] for l in failed)[:300] or out.stdout[-300:])
    finally:
        shutil.rmtree(tmp, ignore_errors=True)

def main():
    props = set(sys.argv[1:])
    patches = sorted(glob.glob(os.path.join(VERIF, "selftest", "patches", "*.patch")))
    if props:
        patches = [p for p in patches if os.path.basename(p).split("-")[0] in props]
    bad = 0
    skipped = 0
    with concurrent.futures.ThreadPoolExecutor(max_workers=4) as ex:
        for patch, prop, ok, info in ex.map(run_one, patches):
            print("%s %s %s :: %s" % ("SKIPPED" if ok is None else ("KILLED " if ok else "MISSED "), prop, os.path.basename(patch), info))
            if ok is None: skipped += 1
            elif not ok: bad += 1
    print("selftest: %d patches, %d missed, %d skipped" % (len(patches), bad, skipped))
    sys.exit(1 if bad else 0)

main()
