#!/usr/bin/env python3
"""mk.py <name> <property> <expect-obligation-substring> <file> <old> <new> [<file> <old> <new> ...]
Creates selftest/patches/<property>-<name>.patch from a textual replacement in /repo, then reverts /repo."""
import subprocess, sys, os
name, prop, expect = sys.argv[1:4]
trip = sys.argv[4:]
files = []
for i in range(0, len(trip), 3):
    f, old, new = trip[i:i+3]
    p = os.path.join("/repo", f)
    s = open(p).read()
    if s.count(old) != 1:
        print("pattern occurs %d times in %s" % (s.count(old), f)); sys.exit(1)
    open(p, "w").write(s.replace(old, new))
    files.append(f)
d = subprocess.run(["git", "-C", "/repo", "diff", "--"] + files, capture_output=True, text=True).stdout
subprocess.run(["git", "-C", "/repo", "checkout", "--"] + files)
out = os.path.join(os.path.dirname(os.path.abspath(__file__)), "patches", "%s-%s.patch" % (prop, name))
open(out, "w").write("# property: %s\n# expect: %s\n%s" % (prop, expect, d))
print("wrote", out)
