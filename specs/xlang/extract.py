#!/usr/bin/env python3
"""Extracts, on every run, the arithmetic formulas and byte offsets that the Ethereum
(Messages.sol) and Alephium (*.ral) contracts use, and emits them as SMT-LIB prelude
blocks for govc. Regex-level parse of specific statements; if an expected statement is
not found the script exits non-zero (the check then fails closed: SPEC-SOURCE-CHANGED)."""
import re, sys, os

repo = sys.argv[1] if len(sys.argv) > 1 else "/repo"

def die(msg):
    sys.stderr.write("SPEC-SOURCE-CHANGED: " + msg + "\n")
    sys.exit(3)

def read(p):
    try:
        return open(os.path.join(repo, p)).read()
    except OSError as e:
        die(str(e))

# ---- tiny arithmetic expression parser: ints, one variable, + - * /, parentheses ----
def to_smt(expr, var):
    toks = re.findall(r"\d+|[A-Za-z_][A-Za-z_0-9]*|[()+\-*/]", expr)
    if "".join(toks) != re.sub(r"\s+", "", expr):
        die("unsupported token in formula %r" % expr)
    pos = [0]
    def peek(): return toks[pos[0]] if pos[0] < len(toks) else None
    def nxt(): pos[0] += 1; return toks[pos[0]-1]
    def atom():
        t = nxt()
        if t == "(":
            e = add(); 
            if nxt() != ")": die("unbalanced formula %r" % expr)
            return e
        if t.isdigit(): return t
        if t == var: return "n"
        die("unknown identifier %r in formula %r" % (t, expr))
    def mul():
        e = atom()
        while peek() in ("*", "/"):
            op = nxt(); r = atom()
            e = "(%s %s %s)" % ("*" if op == "*" else "div", e, r)
        return e
    def add():
        e = mul()
        while peek() in ("+", "-"):
            op = nxt(); r = mul()
            e = "(%s %s %s)" % (op, e, r)
        return e
    e = add()
    if pos[0] != len(toks): die("trailing tokens in formula %r" % expr)
    return e

out = []
# ---------------- quorum ----------------
sol = read("ethereum/contracts/Messages.sol")
m = re.search(r"function\s+quorum\s*\(\s*uint\s+(\w+)\s*\)[^{]*\{\s*return\s+([^;]+);", sol)
if not m: die("Messages.sol: quorum() return statement not found")
sol_q = to_smt(m.group(2), m.group(1))
ral = read("alephium/contracts/governance.ral")
m = re.search(r"let\s+quorumSize\s*=\s*([^\n]+)", ral)
if not m: die("governance.ral: let quorumSize not found")
ral_q = to_smt(m.group(1).strip(), "guardianSize")
m2 = re.search(r"assert!\(\s*quorumSize\s*<=\s*signatureSize", ral)
if not m2: die("governance.ral: quorumSize <= signatureSize assertion not found")
m3 = re.search(r"vm\.signatures\.length\s*<\s*quorum\(guardianSet\.keys\.length\)", sol)
if not m3: die("Messages.sol: signatures.length < quorum(...) rejection not found")
out.append("; @block xlang_quorum")
out.append("(define-fun sol_quorum ((n Int)) Int %s)" % sol_q)
out.append("(define-fun ral_quorum ((n Int)) Int %s)" % ral_q)

# ---------------- VAA layout: Solidity parseVM ----------------
m = re.search(r"function\s+parseVM\s*\([^)]*\)[^{]*\{(.*?)\n    \}", sol, re.S)
if not m: die("Messages.sol: parseVM not found")
body = m.group(1)
width = {"toUint8": 1, "toUint16": 2, "toUint32": 4, "toUint64": 8, "toBytes32": 32}
# header
hdr = re.search(r"vm\.version\s*=\s*encodedVM\.toUint8\(index\);\s*index\s*\+=\s*(\d+);.*?vm\.guardianSetIndex\s*=\s*encodedVM\.(\w+)\(index\);\s*index\s*\+=\s*(\d+);.*?signersLen\s*=\s*encodedVM\.(\w+)\(index\);\s*index\s*\+=\s*(\d+);", body, re.S)
if not hdr: die("Messages.sol: header parse not found")
if int(hdr.group(1)) != 1 or width.get(hdr.group(2)) != int(hdr.group(3)) or width.get(hdr.group(4)) != int(hdr.group(5)):
    die("Messages.sol: header reader width and index increment disagree")
sol_hdr = int(hdr.group(1)) + int(hdr.group(3)) + int(hdr.group(5))
loop = re.search(r"for\s*\(uint i = 0; i < signersLen; i\+\+\)\s*\{(.*?)\n        \}", body, re.S)
if not loop: die("Messages.sol: signature loop not found")
sig = 0
for fn, inc in re.findall(r"encodedVM\.(\w+)\(index\)[^;]*;\s*index\s*\+=\s*(\d+);", loop.group(1)):
    if width.get(fn) != int(inc): die("Messages.sol: signature field width and increment disagree")
    sig += int(inc)
after = body[body.index("bytes memory body"):]
if not re.search(r"bytes memory body\s*=\s*encodedVM\.slice\(index,\s*encodedVM\.length\s*-\s*index\)", after):
    die("Messages.sol: body slice not found")
if not re.search(r"vm\.hash\s*=\s*keccak256\(abi\.encodePacked\(keccak256\(body\)\)\)", after):
    die("Messages.sol: double keccak of body not found")
off = 0
sol_fields = {}
names = {"timestamp": "timestamp", "nonce": "nonce", "emitterChainId": "emitterChain", "targetChainId": "targetChain",
         "emitterAddress": "emitterAddress", "sequence": "sequence", "consistencyLevel": "consistencyLevel"}
for f, fn, inc in re.findall(r"vm\.(\w+)\s*=\s*encodedVM\.(\w+)\(index\);\s*index\s*\+=\s*(\d+);", after):
    if f not in names: die("Messages.sol: unexpected body field " + f)
    if width.get(fn) != int(inc): die("Messages.sol: width of %s and index increment disagree" % f)
    sol_fields[names[f]] = (off, int(inc))
    off += int(inc)
if not re.search(r"vm\.payload\s*=\s*encodedVM\.slice\(index,\s*encodedVM\.length\s*-\s*index\)", after):
    die("Messages.sol: payload slice not found")
sol_fields["payload"] = (off, 0)
if set(sol_fields) != set(names.values()) | {"payload"}: die("Messages.sol: body fields missing: %s" % sorted(sol_fields))

# ---------------- VAA layout: Ralph parseAndVerifyVAA ----------------
m = re.search(r"pub fn parseAndVerifyVAA\(.*?\n    \}", ral, re.S)
if not m: die("governance.ral: parseAndVerifyVAA not found")
rb = m.group(0)
def need(pat, what):
    mm = re.search(pat, rb)
    if not mm: die("governance.ral: " + what + " not found")
    return mm
need(r"byteVecSlice!\(data,\s*0,\s*1\)\s*==\s*Version", "version slice")
g = need(r"guardianSetIndex\s*=\s*u256From4Byte!\(byteVecSlice!\(data,\s*(\d+),\s*(\d+)\)\)", "guardian set index slice")
s = need(r"signatureSize\s*=\s*u256From1Byte!\(byteVecSlice!\(data,\s*(\d+),\s*(\d+)\)\)", "signature count slice")
if (int(g.group(1)), int(g.group(2)), int(s.group(1)), int(s.group(2))) != (1, 5, 5, 6): die("governance.ral: header offsets changed")
b = need(r"let body\s*=\s*byteVecSlice!\(data,\s*(\d+)\s*\+\s*signatureSize\s*\*\s*(\d+),\s*size!\(data\)\)", "body slice")
ral_hdr, ral_sig = int(b.group(1)), int(b.group(2))
need(r"let hash\s*=\s*keccak256!\(keccak256!\(body\)\)", "double keccak")
o = need(r"let mut offset\s*=\s*(\d+)", "signature offset init")
if int(o.group(1)) != ral_hdr: die("governance.ral: signature offset init differs from header size")
need(r"guardianIndex\s*=\s*u256From1Byte!\(byteVecSlice!\(data,\s*offset,\s*offset \+ 1\)\)", "guardian index slice")
sg = need(r"let signature\s*=\s*byteVecSlice!\(data,\s*offset \+ 1,\s*offset \+ (\d+)\)", "signature slice")
st = need(r"offset\s*=\s*offset \+ (\d+)", "offset step")
if int(sg.group(1)) != ral_sig or int(st.group(1)) != ral_sig: die("governance.ral: signature stride inconsistent")
need(r"guardianIndexI256\s*>\s*lastGuardianIndex", "ascending guardian index assertion")
ral_fields = {}
conv = {"u256From2Byte": 2, "u256From8Byte": 8, None: None}
for nm, key in (("emitterChainId", "emitterChain"), ("targetChainId", "targetChain"), ("sequence", "sequence")):
    mm = need(r"let %s\s*=\s*(u256From\dByte)!\(byteVecSlice!\(body,\s*(\d+),\s*(\d+)\)\)" % nm, nm)
    a, bb = int(mm.group(2)), int(mm.group(3))
    if conv.get(mm.group(1)) != bb - a: die("governance.ral: width of %s disagrees with its converter" % nm)
    ral_fields[key] = (a, bb - a)
mm = need(r"let emitterAddress\s*=\s*byteVecSlice!\(body,\s*(\d+),\s*(\d+)\)", "emitterAddress")
ral_fields["emitterAddress"] = (int(mm.group(1)), int(mm.group(2)) - int(mm.group(1)))
mm = need(r"let payload\s*=\s*byteVecSlice!\(body,\s*(\d+),\s*size!\(body\)\)", "payload")
ral_fields["payload"] = (int(mm.group(1)), 0)

out.append("; @block xlang_layout")
out.append("(define-fun sol_hdr_size () Int %d)" % sol_hdr)
out.append("(define-fun sol_sig_size () Int %d)" % sig)
out.append("(define-fun ral_hdr_size () Int %d)" % ral_hdr)
out.append("(define-fun ral_sig_size () Int %d)" % ral_sig)
for k, (a, w) in sorted(sol_fields.items()):
    out.append("(define-fun sol_off_%s () Int %d)" % (k, a))
    out.append("(define-fun sol_len_%s () Int %d)" % (k, w))
for k, (a, w) in sorted(ral_fields.items()):
    out.append("(define-fun ral_off_%s () Int %d)" % (k, a))
    out.append("(define-fun ral_len_%s () Int %d)" % (k, w))

# ---------------- attest-token payload layout: token_bridge.ral:attestToken ----------------
tb = read("alephium/contracts/token_bridge/token_bridge.ral")
m = re.search(r"pub fn attestToken\((.*?)\n    \}", tb, re.S)
if not m: die("token_bridge.ral: attestToken not found")
at = m.group(1)
sizes = {}
for nm, sz in re.findall(r"assert!\(size!\((\w+)\)\s*==\s*(\d+)", at):
    sizes[nm] = int(sz)
pm = re.search(r"let payload\s*=\s*(.*?)\n\s*\n", at, re.S)
if not pm: die("token_bridge.ral: attestToken payload expression not found")
parts = [x.strip() for x in pm.group(1).replace("\n", " ").split("++")]
conv = {"u256To1Byte!": 1, "u256To2Byte!": 2, "u256To4Byte!": 4, "u256To8Byte!": 8, "u256To32Byte!": 32}
off = 0
att = {}
for part in parts:
    mm = re.match(r"(u256To\d+Byte!)\((\w+)\)$", part)
    if part == "PayloadId.AttestToken":
        w, key = 1, "payloadId"
    elif mm and mm.group(1) in conv:
        w, key = conv[mm.group(1)], mm.group(2)
    elif part in sizes:
        w, key = sizes[part], part
    else:
        die("token_bridge.ral: cannot size attest payload part %r" % part)
    att[key] = (off, w)
    off += w
for k in ("payloadId", "localTokenId", "localChainId", "decimals", "symbol", "name"):
    if k not in att: die("token_bridge.ral: attest payload part %s missing" % k)
pid = re.search(r"enum PayloadId\s*\{(.*?)\}", read("alephium/contracts/token_bridge/token_bridge_constants.ral"), re.S)
aid = re.search(r"AttestToken\s*=\s*#([0-9a-fA-F]+)", pid.group(1)) if pid else None
if not aid: die("token_bridge_constants.ral: PayloadId.AttestToken not found")
out.append("; @block xlang_attest")
out.append("(define-fun ral_attest_size () Int %d)" % off)
out.append("(define-fun ral_attest_id () Int %d)" % int(aid.group(1), 16))
for k, (a, w) in sorted(att.items()):
    out.append("(define-fun ral_attest_off_%s () Int %d)" % (k, a))
    out.append("(define-fun ral_attest_len_%s () Int %d)" % (k, w))

# ---------------- governance payloads: module ids, action ids, field offsets and total sizes ----------------
tbg = read("alephium/contracts/token_bridge/token_bridge_governance.ral")
out.append("; @block xlang_gov requires Slice_Int")
def module_pred(name, src, const):
    m = re.search(r"const\s+%s\s*=\s*0x([0-9a-fA-F]+)" % const, src)
    if not m: die("%s constant not found" % const)
    val = int(m.group(1), 16)
    bs = val.to_bytes(32, "big")
    conj = " ".join("(= (select (sarr_Int b) %d) %d)" % (i, bs[i]) for i in range(32))
    out.append("(define-fun %s ((b Slice_Int)) Bool (and (>= (slen_Int b) 32) %s))" % (name, conj))
module_pred("ral_is_core_module", ral, "CoreModule")
module_pred("ral_is_tb_module", tbg, "TokenBridgeModule")
if not re.search(r"u256From32Byte!\(byteVecSlice!\(payload,\s*0,\s*32\)\)\s*==\s*coreModule", ral): die("governance.ral: module check at payload[0:32] not found")
if not re.search(r"byteVecSlice!\(payload,\s*32,\s*33\)\s*==\s*action", ral): die("governance.ral: action check at payload[32:33] not found")
def actions(prefix, src, where):
    m = re.search(r"enum ActionId\s*\{(.*?)\}", src, re.S)
    if not m: die(where + ": enum ActionId not found")
    for nm, hx in re.findall(r"(\w+)\s*=\s*#([0-9a-fA-F]+)", m.group(1)):
        out.append("(define-fun %s_%s () Int %d)" % (prefix, nm, int(hx, 16)))
actions("ral_core_action", ral, "governance.ral")
actions("ral_tb_action", tbg, "token_bridge_governance.ral")
def gov_fn(tag, src, fname, where):
    m = re.search(r"fn %s\(.*?\n    \}" % fname, src, re.S)
    if not m: die("%s: function %s not found" % (where, fname))
    body = m.group(0)
    for var, a, b in re.findall(r"let\s+(\w+)\s*=\s*(?:\w+!\()?byteVecSlice!\(payload,\s*(\d+),\s*(\d+)\)", body):
        out.append("(define-fun ral_%s_%s_off () Int %s)" % (tag, var, a))
        out.append("(define-fun ral_%s_%s_end () Int %s)" % (tag, var, b))
    ms = re.search(r"size!\(payload\)\s*==\s*(\d+)", body)
    mp = re.search(r"let payloadSize\s*=\s*(\d+)\s*\+\s*(\w+)(?:\s*\*\s*(\d+))?", body)
    if ms:
        out.append("(define-fun ral_%s_size_base () Int %s)" % (tag, ms.group(1)))
        out.append("(define-fun ral_%s_size_per () Int 0)" % tag)
    elif mp and re.search(r"size!\(payload\)\s*==\s*payloadSize", body):
        out.append("(define-fun ral_%s_size_base () Int %s)" % (tag, mp.group(1)))
        out.append("(define-fun ral_%s_size_per () Int %s)" % (tag, mp.group(3) or "1"))
    else:
        die("%s: %s: payload size assertion not found" % (where, fname))
gov_fn("newGuardianSet", ral, "submitNewGuardianSet", "governance.ral")
gov_fn("setMessageFee", ral, "submitSetMessageFee", "governance.ral")
gov_fn("transferFees", ral, "submitTransferFees", "governance.ral")
gov_fn("registerChain", tbg, "parseAndVerifyRegisterChain", "token_bridge_governance.ral")
gov_fn("destroySequences", tbg, "destroyUnexecutedSequenceContracts", "token_bridge_governance.ral")
gov_fn("minConsistency", tbg, "updateMinimalConsistencyLevel", "token_bridge_governance.ral")
gov_fn("refundAddress", tbg, "updateRefundAddress", "token_bridge_governance.ral")

# ---------------- encBody: the body layout as a spec function, built from the Solidity table ----------------
# (definitional axioms; the Ralph table is compared with it by lemma offset_tables_agree)
args = [("ts","Int","timestamp"),("no","Int","nonce"),("ec","Int","emitterChain"),("tc","Int","targetChain"),
        ("ad","A32","emitterAddress"),("sq","Int","sequence"),("cl","Int","consistencyLevel"),("pl","Slice_Int","payload")]
decl = " ".join("(%s %s)" % (a, srt) for a, srt, _ in args)
app = "(encBody " + " ".join(a for a, _, _ in args) + ")"
out.append("; @block xlang_encbody requires Slice_Int A32")
out.append("(declare-fun encBody (Int Int Int Int A32 Int Int Slice_Int) Slice_Int)")
conj = ["(= (slen_Int %s) (+ %d (slen_Int pl)))" % (app, sol_fields["payload"][0]), "(not (snil_Int %s))" % app]
for a, srt, key in args:
    off, w = sol_fields[key]
    if srt == "Int":
        inr = "(and (<= 0 %s) (< %s %d))" % (a, a, 256**w)
        bs = []
        terms = []
        for j in range(w):
            sh = 256**(w-1-j)
            sel = "(select (sarr_Int %s) %d)" % (app, off+j)
            by = "(mod %s 256)" % a if sh == 1 else "(mod (div %s %d) 256)" % (a, sh)
            bs.append("(= %s %s)" % (sel, by))
            terms.append(sel if sh == 1 else "(* %d %s)" % (sh, sel))
        summ = terms[0] if len(terms) == 1 else "(+ " + " ".join(terms) + ")"
        conj.append("(=> %s (and %s (= %s %s)))" % (inr, " ".join(bs), summ, a))
out.append("(assert (forall (%s) (! (and %s) :pattern (%s))))" % (decl, " ".join(conj), app))
o, w = sol_fields["emitterAddress"]
out.append("(assert (forall (%s (k Int)) (! (=> (and (<= %d k) (< k %d)) (= (select (sarr_Int %s) k) (at32 ad (- k %d)))) :pattern ((select (sarr_Int %s) k)))))" % (decl, o, o + w, app, o, app))
o, _ = sol_fields["payload"]
out.append("(assert (forall (%s (k Int)) (! (=> (and (<= %d k) (< k (+ %d (slen_Int pl)))) (= (select (sarr_Int %s) k) (select (sarr_Int pl) (- k %d)))) :pattern ((select (sarr_Int %s) k)))))" % (decl, o, o, app, o, app))
# reverse direction (same facts, triggered from the field side)
o, w = sol_fields["emitterAddress"]
out.append("(assert (forall (%s (j Int)) (! (=> (and (<= 0 j) (< j %d)) (= (at32 ad j) (select (sarr_Int %s) (+ %d j)))) :pattern ((at32 ad j) %s))))" % (decl, w, app, o, app))
o, _ = sol_fields["payload"]
out.append("(assert (forall (%s (j Int)) (! (=> (and (<= 0 j) (< j (slen_Int pl))) (= (select (sarr_Int pl) j) (select (sarr_Int %s) (+ %d j)))) :pattern ((select (sarr_Int pl) j) %s))))" % (decl, app, o, app))
print("\n".join(out))
