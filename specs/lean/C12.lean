/-
Segment alignment for format-structured strings (property C12).

govc decides `hasPrefix(key, pattern)` for strings built by `fmt.Sprintf` segment by segment
(engine/fstr.go). The rule it uses for a `%d` segment that is followed, in both strings, by a
literal starting with a non-digit is `digits_align` below: the two digit runs are equal and the
remainders are again in the prefix relation. The rule for a pattern that *ends* inside a `%d`
segment is `digits_prefix_of_run`: the pattern's digits are a prefix of the key's digit run
(and nothing more can be concluded - which is why an unterminated prefix mixes streams).
Equality of canonical decimal renderings is equality of numbers: `Nat.repr` is injective
(`repr_inj`).
-/
import Mathlib.Data.List.Basic
import Mathlib.Data.Nat.Digits.Lemmas

open List

theorem digits_align {α : Type} (isD : α → Prop) :
    ∀ (ds ds' : List α) (c c' : α) (r r' : List α),
      (∀ x ∈ ds, isD x) → (∀ x ∈ ds', isD x) → ¬ isD c → ¬ isD c' →
      (ds' ++ c' :: r') <+: (ds ++ c :: r) → ds = ds' ∧ c = c' ∧ r' <+: r := by
  intro ds
  induction ds with
  | nil =>
    intro ds' c c' r r' _ hd' hc _ h
    cases ds' with
    | nil =>
      simp only [List.nil_append] at h
      rcases List.cons_prefix_cons.mp h with ⟨h1, h2⟩
      exact ⟨rfl, h1.symm, h2⟩
    | cons d' t =>
      simp only [List.nil_append, List.cons_append] at h
      rcases List.cons_prefix_cons.mp h with ⟨h1, _⟩
      exact absurd (h1 ▸ hd' d' (List.mem_cons_self ..)) hc
  | cons d t ih =>
    intro ds' c c' r r' hd hd' hc hc' h
    cases ds' with
    | nil =>
      simp only [List.nil_append, List.cons_append] at h
      rcases List.cons_prefix_cons.mp h with ⟨h1, _⟩
      exact absurd (h1 ▸ hd d (List.mem_cons_self ..)) hc'
    | cons d' t' =>
      simp only [List.cons_append] at h
      rcases List.cons_prefix_cons.mp h with ⟨h1, h2⟩
      have := ih t' c c' r r' (fun x hx => hd x (List.mem_cons_of_mem _ hx))
        (fun x hx => hd' x (List.mem_cons_of_mem _ hx)) hc hc' h2
      rcases this with ⟨e1, e2, e3⟩
      exact ⟨by rw [h1, e1], e2, e3⟩

/-- A pattern that ends with a digit run: all one learns is that the run is a prefix of the
key's digit run (the key's run is delimited by a non-digit, the pattern's is not). -/
theorem digits_prefix_of_run {α : Type} (isD : α → Prop) :
    ∀ (ds ds' : List α) (c : α) (r : List α),
      (∀ x ∈ ds', isD x) → ¬ isD c →
      ds' <+: (ds ++ c :: r) → ds' <+: ds := by
  intro ds
  induction ds with
  | nil =>
    intro ds' c r hd' hc h
    cases ds' with
    | nil => exact List.nil_prefix
    | cons d' t =>
      simp only [List.nil_append] at h
      rcases List.cons_prefix_cons.mp h with ⟨h1, _⟩
      exact absurd (h1 ▸ hd' d' (List.mem_cons_self ..)) hc
  | cons d t ih =>
    intro ds' c r hd' hc h
    cases ds' with
    | nil => exact List.nil_prefix
    | cons d' t' =>
      simp only [List.cons_append] at h
      rcases List.cons_prefix_cons.mp h with ⟨h1, h2⟩
      have := ih t' c r (fun x hx => hd' x (List.mem_cons_of_mem _ hx)) hc h2
      exact List.cons_prefix_cons.mpr ⟨h1, this⟩

/-- Canonical decimal renderings are equal only for equal numbers (little-endian digit lists;
a string rendering is their reverse mapped to characters). -/
theorem repr_inj (a b : ℕ) (h : Nat.digits 10 a = Nat.digits 10 b) : a = b :=
  Nat.digits_inj_iff.mp h

/-- Dropping the k low digits is division by 10^k: a pattern's number whose rendering is a
prefix of the key's rendering is `a / 10^k` for some k (the `decprefix` disjunction). -/
theorem drop_digits (a k : ℕ) : (Nat.digits 10 a).drop k = Nat.digits 10 (a / 10 ^ k) := by
  induction k generalizing a with
  | zero => simp
  | succ k ih =>
    rcases Nat.eq_zero_or_pos a with h0 | hpos
    · subst h0; simp
    · rw [Nat.digits_def' (by norm_num) hpos, List.drop_succ_cons, ih, pow_succ, Nat.div_div_eq_div_mul]
      congr 2
      ring
