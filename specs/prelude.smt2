; Spec prelude for govc. Blocks are included in a script only when a unit needs them.
; "@block <name> [requires <sorts>]" starts a block; every symbol declared in it is
; callable from contracts. Axioms are tagged (assumed) or (definitional).

; @block dyntype
(declare-fun dyntype (Int) Int)

; @block boxsize
; boxsize/boxint describe a value boxed into interface{} (definitional: facts are
; emitted at the conversion site from the static type)
(declare-fun boxsize (Int) Int)
(declare-fun boxint (Int) Int)

; @block keccak requires Slice_Int A32
; (assumed) keccak is an uninterpreted function of the byte content
(declare-fun keccak (Slice_Int) A32)

; @block ecrec requires Slice_Int A32 A65
; (assumed) secp256k1 public-key recovery: uninterpreted
(declare-fun ecrec_ok (A32 A65) Bool)
(declare-fun ecrec (A32 A65) Slice_Int)

; @block b2a requires Slice_Int A20
; (assumed) common.BytesToAddress
(declare-fun b2a (Slice_Int) A20)

; @block signer requires Slice_Int A20 A32 A65
; address recovered from a signature over a digest (composition of ecrec, keccak, b2a as the code computes it)
(declare-fun tail12 (Slice_Int) Slice_Int)
(declare-fun drop1 (Slice_Int) Slice_Int)

; @block hexs requires Slice_Int GoString
; (assumed) hex.EncodeToString: uninterpreted
(declare-fun hexs (Slice_Int) GoString)

; @block strat requires GoString
(declare-fun strat (GoString Int) Int)
; @block substr requires GoString
(declare-fun substr (GoString Int Int) GoString)
; @block strcat requires GoString
(declare-fun strcat (GoString GoString) GoString)
(assert (forall ((a GoString) (b GoString)) (! (= (strlen (strcat a b)) (+ (strlen a) (strlen b))) :pattern ((strcat a b)))))
; @block bytes2str requires GoString Slice_Int
(declare-fun bytes2str (Slice_Int) GoString)
; @block str2bytes requires GoString Slice_Int
(declare-fun str2bytes (GoString) Slice_Int)
(assert (forall ((s GoString)) (! (and (= (slen_Int (str2bytes s)) (strlen s)) (not (snil_Int (str2bytes s)))) :pattern ((str2bytes s)))))

; @block be16at requires Slice_Int
(define-fun be16at ((b Slice_Int) (o Int)) Int (+ (* 256 (select (sarr_Int b) o)) (select (sarr_Int b) (+ o 1))))
; @block be32at requires Slice_Int
(define-fun be32at ((b Slice_Int) (o Int)) Int (+ (* 16777216 (select (sarr_Int b) o)) (* 65536 (select (sarr_Int b) (+ o 1))) (* 256 (select (sarr_Int b) (+ o 2))) (select (sarr_Int b) (+ o 3))))
; @block be64at requires Slice_Int
(define-fun be64at ((b Slice_Int) (o Int)) Int (+ (* 72057594037927936 (select (sarr_Int b) o)) (* 281474976710656 (select (sarr_Int b) (+ o 1))) (* 1099511627776 (select (sarr_Int b) (+ o 2))) (* 4294967296 (select (sarr_Int b) (+ o 3))) (* 16777216 (select (sarr_Int b) (+ o 4))) (* 65536 (select (sarr_Int b) (+ o 5))) (* 256 (select (sarr_Int b) (+ o 6))) (select (sarr_Int b) (+ o 7))))
; @block unix requires Time
(define-fun unix ((t Time)) Int (time.unix t))
(define-fun nsec ((t Time)) Int (time.nsec t))
