; Spec prelude for govc. Blocks are included in a script only when a unit needs them.
; "@block <name> [requires <sorts>]" starts a block; every symbol declared in it is
; callable from contracts. Axioms are tagged (assumed) or (definitional).

; @block dyntype
(declare-fun dyntype (Int) Int)

; @block boxsize
; boxsize/boxint describe a value boxed into interface{} (definitional: facts are
; emitted at the conversion site from the static type)
(declare-fun boxsize (Int) Int)
(declare-fun boxint (Int) Int)

; @block keccak requires Slice_Int A32
; (assumed) keccak is an uninterpreted function of the byte content: equal contents hash equally
(declare-fun keccak (Slice_Int) A32)
(assert (forall ((a Slice_Int) (b Slice_Int)) (! (=> (and (= (slen_Int a) (slen_Int b)) (forall ((k Int)) (=> (and (<= 0 k) (< k (slen_Int a))) (= (select (sarr_Int a) k) (select (sarr_Int b) k))))) (= (keccak a) (keccak b))) :pattern ((keccak a) (keccak b)))))

; @block ecrec requires Slice_Int A32 A65
; (assumed) secp256k1 public-key recovery: uninterpreted
(declare-fun ecrec_ok (A32 A65) Bool)
(declare-fun ecrec (A32 A65) Slice_Int)

; @block b2a requires Slice_Int A20
; (assumed) common.BytesToAddress
(declare-fun b2a (Slice_Int) A20)

; @block signer requires Slice_Int A20 A32 A65
; address recovered from a signature over a digest (composition of ecrec, keccak, b2a as the code computes it)
(declare-fun tail12 (Slice_Int) Slice_Int)
(declare-fun drop1 (Slice_Int) Slice_Int)

; @block hexs requires Slice_Int GoString
; (assumed) hex.EncodeToString: uninterpreted
(declare-fun hexs (Slice_Int) GoString)

; @block declen
; number of decimal digits of a canonical rendering (only its positivity is used)
(declare-fun declen (Int) Int)
(assert (forall ((n Int)) (! (>= (declen n) 1) :pattern ((declen n)))))
; @block errstr requires GoString
; (assumed) the text of an error value is a function of the value (errors are immutable)
(declare-fun errstr (Int) GoString)
; @block strat requires GoString
(declare-fun strat (GoString Int) Int)
; @block substr requires GoString
(declare-fun substr (GoString Int Int) GoString)
; @block strcat requires GoString
(declare-fun strcat (GoString GoString) GoString)
(assert (forall ((a GoString) (b GoString)) (! (= (strlen (strcat a b)) (+ (strlen a) (strlen b))) :pattern ((strcat a b)))))
; @block str2bytes requires GoString Slice_Int
(declare-fun bytes2str (Slice_Int) GoString)
(declare-fun str2bytes (GoString) Slice_Int)
(assert (forall ((s GoString)) (! (= (bytes2str (str2bytes s)) s) :pattern ((str2bytes s)))))
(assert (forall ((b Slice_Int)) (! (=> (>= (slen_Int b) 0) (= (strlen (bytes2str b)) (slen_Int b))) :pattern ((bytes2str b)))))
(assert (forall ((s GoString)) (! (and (= (slen_Int (str2bytes s)) (strlen s)) (not (snil_Int (str2bytes s)))) :pattern ((str2bytes s)))))

; @block be16at requires Slice_Int
(define-fun be16at ((b Slice_Int) (o Int)) Int (+ (* 256 (select (sarr_Int b) o)) (select (sarr_Int b) (+ o 1))))
; @block be32at requires Slice_Int
(define-fun be32at ((b Slice_Int) (o Int)) Int (+ (* 16777216 (select (sarr_Int b) o)) (* 65536 (select (sarr_Int b) (+ o 1))) (* 256 (select (sarr_Int b) (+ o 2))) (select (sarr_Int b) (+ o 3))))
; @block be64at requires Slice_Int
(define-fun be64at ((b Slice_Int) (o Int)) Int (+ (* 72057594037927936 (select (sarr_Int b) o)) (* 281474976710656 (select (sarr_Int b) (+ o 1))) (* 1099511627776 (select (sarr_Int b) (+ o 2))) (* 4294967296 (select (sarr_Int b) (+ o 3))) (* 16777216 (select (sarr_Int b) (+ o 4))) (* 65536 (select (sarr_Int b) (+ o 5))) (* 256 (select (sarr_Int b) (+ o 6))) (select (sarr_Int b) (+ o 7))))
; @block unix requires Time
(define-fun unix ((t Time)) Int (time.unix t))
(define-fun nsec ((t Time)) Int (time.nsec t))
(define-fun tns ((t Time)) Int (time.ns t))

; @block bufops requires Slice_Int
; appendbe(c,k,v) = c ++ BE_k(v);  catbytes(c,p) = c ++ p   (definitional)
(declare-fun appendbe (Slice_Int Int Int) Slice_Int)
(declare-fun catbytes (Slice_Int Slice_Int) Slice_Int)
(assert (forall ((c Slice_Int) (k Int) (v Int)) (! (and (= (slen_Int (appendbe c k v)) (+ (slen_Int c) k)) (not (snil_Int (appendbe c k v)))) :pattern ((appendbe c k v)))))
(assert (forall ((c Slice_Int) (k Int) (v Int) (i Int)) (! (=> (< i (slen_Int c)) (= (select (sarr_Int (appendbe c k v)) i) (select (sarr_Int c) i))) :pattern ((select (sarr_Int (appendbe c k v)) i)))))
(assert (forall ((c Slice_Int) (v Int)) (! (=> (and (<= 0 v) (< v 256)) (= (select (sarr_Int (appendbe c 1 v)) (slen_Int c)) v)) :pattern ((appendbe c 1 v)))))
(assert (forall ((c Slice_Int) (v Int)) (! (=> (and (<= 0 v) (< v 65536)) (and
  (= (select (sarr_Int (appendbe c 2 v)) (slen_Int c)) (mod (div v 256) 256))
  (= (select (sarr_Int (appendbe c 2 v)) (+ (slen_Int c) 1)) (mod v 256))
  (= (+ (* 256 (select (sarr_Int (appendbe c 2 v)) (slen_Int c))) (select (sarr_Int (appendbe c 2 v)) (+ (slen_Int c) 1))) v))) :pattern ((appendbe c 2 v)))))
(assert (forall ((c Slice_Int) (v Int)) (! (=> (and (<= 0 v) (< v 4294967296)) (and
  (= (select (sarr_Int (appendbe c 4 v)) (slen_Int c)) (mod (div v 16777216) 256))
  (= (select (sarr_Int (appendbe c 4 v)) (+ (slen_Int c) 1)) (mod (div v 65536) 256))
  (= (select (sarr_Int (appendbe c 4 v)) (+ (slen_Int c) 2)) (mod (div v 256) 256))
  (= (select (sarr_Int (appendbe c 4 v)) (+ (slen_Int c) 3)) (mod v 256))
  (= (+ (* 16777216 (select (sarr_Int (appendbe c 4 v)) (slen_Int c))) (* 65536 (select (sarr_Int (appendbe c 4 v)) (+ (slen_Int c) 1))) (* 256 (select (sarr_Int (appendbe c 4 v)) (+ (slen_Int c) 2))) (select (sarr_Int (appendbe c 4 v)) (+ (slen_Int c) 3))) v))) :pattern ((appendbe c 4 v)))))
(assert (forall ((c Slice_Int) (v Int)) (! (=> (and (<= 0 v) (< v 18446744073709551616)) (and
  (= (select (sarr_Int (appendbe c 8 v)) (slen_Int c)) (mod (div v 72057594037927936) 256))
  (= (select (sarr_Int (appendbe c 8 v)) (+ (slen_Int c) 1)) (mod (div v 281474976710656) 256))
  (= (select (sarr_Int (appendbe c 8 v)) (+ (slen_Int c) 2)) (mod (div v 1099511627776) 256))
  (= (select (sarr_Int (appendbe c 8 v)) (+ (slen_Int c) 3)) (mod (div v 4294967296) 256))
  (= (select (sarr_Int (appendbe c 8 v)) (+ (slen_Int c) 4)) (mod (div v 16777216) 256))
  (= (select (sarr_Int (appendbe c 8 v)) (+ (slen_Int c) 5)) (mod (div v 65536) 256))
  (= (select (sarr_Int (appendbe c 8 v)) (+ (slen_Int c) 6)) (mod (div v 256) 256))
  (= (select (sarr_Int (appendbe c 8 v)) (+ (slen_Int c) 7)) (mod v 256))
  (= (+ (* 72057594037927936 (select (sarr_Int (appendbe c 8 v)) (slen_Int c))) (* 281474976710656 (select (sarr_Int (appendbe c 8 v)) (+ (slen_Int c) 1))) (* 1099511627776 (select (sarr_Int (appendbe c 8 v)) (+ (slen_Int c) 2))) (* 4294967296 (select (sarr_Int (appendbe c 8 v)) (+ (slen_Int c) 3))) (* 16777216 (select (sarr_Int (appendbe c 8 v)) (+ (slen_Int c) 4))) (* 65536 (select (sarr_Int (appendbe c 8 v)) (+ (slen_Int c) 5))) (* 256 (select (sarr_Int (appendbe c 8 v)) (+ (slen_Int c) 6))) (select (sarr_Int (appendbe c 8 v)) (+ (slen_Int c) 7))) v))) :pattern ((appendbe c 8 v)))))
(assert (forall ((c Slice_Int) (p Slice_Int)) (! (and (= (slen_Int (catbytes c p)) (+ (slen_Int c) (slen_Int p))) (not (snil_Int (catbytes c p)))) :pattern ((catbytes c p)))))
(assert (forall ((c Slice_Int) (p Slice_Int) (i Int)) (! (= (select (sarr_Int (catbytes c p)) i) (ite (< i (slen_Int c)) (select (sarr_Int c) i) (select (sarr_Int p) (- i (slen_Int c))))) :pattern ((select (sarr_Int (catbytes c p)) i)))))

; @block bigparse requires GoString
; (assumed) big.Int.SetString(s, 10): parses10(s) says whether s is a decimal integer
; (optional sign), parse10(s) is its value (any integer, including negative)
(declare-fun parses10 (GoString) Bool)
(declare-fun parse10 (GoString) Int)

; @block hexcodec requires GoString Slice_Int block:hexs
; (assumed) hex.DecodeString / hex.EncodeToString are inverse on encodings
(declare-fun hexok (GoString) Bool)
(declare-fun unhex (GoString) Slice_Int)
(assert (forall ((s GoString)) (! (=> (hexok s) (and (= (* 2 (slen_Int (unhex s))) (strlen s)) (not (snil_Int (unhex s))))) :pattern ((unhex s)))))
(assert (forall ((b Slice_Int)) (! (=> (>= (slen_Int b) 0) (and (hexok (hexs b)) (= (strlen (hexs b)) (* 2 (slen_Int b))) (= (slen_Int (unhex (hexs b))) (slen_Int b)))) :pattern ((hexs b)))))
(assert (forall ((b Slice_Int) (i Int)) (! (=> (and (<= 0 i) (< i (slen_Int b))) (= (select (sarr_Int (unhex (hexs b))) i) (select (sarr_Int b) i))) :pattern ((select (sarr_Int (unhex (hexs b))) i)))))

; @block b58 requires GoString Slice_Int
; (assumed) base58.Decode(base58.Encode(b)) = b
(declare-fun b58enc (Slice_Int) GoString)
(declare-fun b58dec (GoString) Slice_Int)
(assert (forall ((b Slice_Int)) (! (= (slen_Int (b58dec (b58enc b))) (slen_Int b)) :pattern ((b58enc b)))))
(assert (forall ((b Slice_Int) (i Int)) (! (=> (and (<= 0 i) (< i (slen_Int b))) (= (select (sarr_Int (b58dec (b58enc b))) i) (select (sarr_Int b) i))) :pattern ((select (sarr_Int (b58dec (b58enc b))) i)))))

; @block trimzero requires GoString Slice_Int
; (assumed) string(bytes.Trim(bs, "\x00")): uninterpreted function of the byte content
(declare-fun trimzero (Slice_Int) Slice_Int)

; @block hexdigest requires Slice_Int A32 block:hexcodec
; (derived from the hex codec inverse axiom, from32's definition and extensionality of A32)
; decoding the hex of a 32-byte digest gives the digest back
(assert (forall ((b Slice_Int)) (! (=> (>= (slen_Int b) 32) (= (from32 (unhex (hexs b))) (from32 b))) :pattern ((from32 (unhex (hexs b)))))))
(define-fun hexdigest_loaded () Bool true)

; @block cntKeys requires A20 Slice_A20
; cntKeys(d, ks, i): how many of the first i keys are in the set d (definitional recursion)
(declare-fun cntKeys ((Array A20 Bool) Slice_A20 Int) Int)
(assert (forall ((d (Array A20 Bool)) (ks Slice_A20)) (! (= (cntKeys d ks 0) 0) :pattern ((cntKeys d ks 0)))))
(assert (forall ((d (Array A20 Bool)) (ks Slice_A20) (i Int)) (! (=> (> i 0) (= (cntKeys d ks i) (+ (cntKeys d ks (- i 1)) (ite (select d (select (sarr_A20 ks) (- i 1))) 1 0)))) :pattern ((cntKeys d ks i)))))
